"""C07 confidentiality: spec/Confidentiality.tla.
(A) TLC: NoSecretInClear, NoAppDataEpoch0Out, NoAppDataEpoch0In, ExporterNotComputable over all interleavings of Write calls,
    handshake progress, drops + retransmission timers, key updates (1.3), Close and injected cleartext application data; a Write
    that does not wait for the handshake, a receiver that accepts epoch-0 application data, and the DTLS 1.3 exporter keyed with an
    empty secret (the pinned tree) must each violate their formula.
(B) every schedule generated from the model (one per edge of the state graph) is executed on real endpoints over the scripted
    lab network with virtual timers, spread over every cipher suite x connection-ID x padding layout; a wire monitor inspects
    every emitted datagram and every Read result.
(C) ExportKeyingMaterial of both sides is compared with everything an observer of the cleartext handshake could compute."""
import json
import os
import random
import shutil

import suites
import hsreplay13f
import vlib

MODULE = "Confidentiality"


def run_cases(binary, test, cases, tag, timeout=2400):
    wd = vlib.scratch("c07")
    try:
        inp, out = os.path.join(wd, "in"), os.path.join(wd, "out")
        with open(inp, "w") as fh:
            for c in cases:
                fh.write(json.dumps(c) + "\n")
        rc, txt = vlib.run_test(binary, test, {"VERIF_IN": inp, "VERIF_OUT": out}, timeout=timeout)
        if rc != 0 or not os.path.exists(out):
            raise vlib.Inconclusive("confidentiality harness failed (%s): %s" % (tag, txt[-1500:]))
        rows = vlib.read_ndjson(out)
        if len(rows) != len(cases):
            raise vlib.Inconclusive("harness returned %d of %d rows (%s)" % (len(rows), len(cases), tag))
        return rows
    finally:
        shutil.rmtree(wd, ignore_errors=True)


def run(chk):
    t = chk.tier
    rng = random.Random(chk.seed)
    for ver in ("12", "13"):
        chk.add_tlc("mc." + ver, vlib.tlc_check(MODULE, "Confidentiality.%s.mc.%s.cfg" % (ver, t), timeout=900))
    vlib.tlc_expect_violation(MODULE, "Confidentiality.12.nowait.cfg", "NoSecretInClear (Write not waiting for the handshake)", timeout=300)
    vlib.tlc_expect_violation(MODULE, "Confidentiality.12.norefuse.cfg", "NoAppDataEpoch0In", timeout=300)
    vlib.tlc_expect_violation(MODULE, "Confidentiality.13.exporter-asis.cfg", "ExporterNotComputable (empty exporter secret)", timeout=300)
    binary = vlib.build("root")
    layouts = suites.record_scenarios()
    l12 = [(n, s) for n, s in layouts if s["ver"] == "12"]
    l13 = [(n, s) for n, s in layouts if s["ver"] == "13"]
    extra12 = [("resume12", dict(ver="12", helloVerify=True, resume=True, cidC=-1, cidS=-1)),
               ("clientauth12", dict(ver="12", helloVerify=True, clientAuth=4, clientCert=True, verify=True, cidC=-1, cidS=-1)),
               ("frag12", dict(ver="12", helloVerify=True, mtu=200, cidC=-1, cidS=-1)),
               ("nohv12", dict(ver="12", helloVerify=False, cidC=-1, cidS=-1))]
    extra13 = [("nohrr13", dict(ver="13", helloVerify=False, curvesC=[29], curvesS=[29], cidC=-1, cidS=-1)),
               ("frag13", dict(ver="13", helloVerify=True, mtu=300, cidC=-1, cidS=-1))]
    cases = []
    nsched = 0
    for ver, lay in (("12", l12 + extra12), ("13", l13 + extra13)):
        gen = vlib.tlc_generate(MODULE, "Confidentiality.%s.gen.%s.cfg" % (ver, t), timeout=1500)
        chk.add_tlc("gen." + ver, gen)
        scheds = [g["steps"] for g in gen.printed if g["steps"]]
        if len(scheds) < 100:
            raise vlib.Inconclusive("too few schedules generated for DTLS " + ver)
        # schedules are prefixes of one another: keep those that are not a proper prefix of another kept one (maximal paths
        # plus a seeded share of the rest), and spread them over the layouts
        keys = {json.dumps(s) for s in scheds}
        maximal = [s for s in scheds if not any(json.dumps(s + [x]) in keys for x in
                   [{"op": o, "side": sd} for o in ("pump", "drop", "timer") for sd in ("",)] +
                   [{"op": o, "side": sd} for o in ("write", "update", "close", "inject0") for sd in ("c", "s")])]
        rest = [s for s in scheds if s not in maximal]
        budget = 1500 if chk.quick else 12000
        pick = maximal if len(maximal) <= budget else rng.sample(maximal, budget)
        if len(pick) < budget and rest:
            pick = pick + rng.sample(rest, min(len(rest), budget - len(pick)))
        nsched += len(pick)
        for i, s in enumerate(pick):
            name, sc = lay[(i + chk.seed) % len(lay)]
            # the HelloVerify-less / HRR-less variants need fewer rounds: extra pumps are harmless
            cases.append({"scen": dict(sc, helloVerify=sc.get("helloVerify", True)), "name": "%s#%d" % (name, i), "steps": s,
                          "size": rng.choice([16, 64, 600, 1100])})
            for st in s:
                pass
        chk.sample({"ver": ver, "schedule": [(x["op"] + (":" + x["side"] if x["side"] else "")) for x in pick[len(pick) // 2]]})
    rows = run_cases(binary, "TestVerifConfidential", cases, "schedules")
    lab = est = apprec = dgrams = delivered = writes = 0
    for c, r in zip(cases, rows):
        if r.get("panic"):
            raise vlib.Inconclusive("harness panic in %s: %s" % (c["name"], r["panic"]))
        if r.get("lab"):
            lab += 1
            if lab <= 3:
                chk.note("lab: %s: %s [%s]" % (c["name"], r["lab"], " ".join(x["op"] + x["side"] for x in c["steps"])))
            continue
        chk.evaluated(key=c["name"] + json.dumps(c["steps"]))
        chk.traces(1)
        est += 1 if (r["cest"] and r["sest"]) else 0
        apprec += r["appRecords"] + (r["protected"] if c["scen"]["ver"] == "13" else 0)
        dgrams += r["datagrams"]
        delivered += r["delivered"]
        writes += r["writes"]
        for v in r.get("violations") or []:
            chk.violation({"kind": "cleartext-leak", "what": v, "case": c})
            break
    if lab > max(3, len(cases) // 100):
        raise vlib.Inconclusive("%d of %d schedules could not be executed" % (lab, len(cases)))
    if est < len(cases) // 4 or delivered < len(cases) // 8 or dgrams < 5 * len(cases):
        raise vlib.Inconclusive("vacuous: established=%d delivered=%d datagrams=%d of %d schedules" % (est, delivered, dgrams, len(cases)))
    chk.parts["schedules"] = {"cases": len(cases), "both_established": est, "datagrams_inspected": dgrams, "app_or_protected_records": apprec,
                              "payloads_delivered": delivered, "write_calls": writes, "lab_skipped": lab}
    # (B') DTLS 1.3 handshakes whose protected flight spans several datagrams, under the loss / duplication / reordering / timer
    # scripts of spec/Handshake13F.tla: whatever is re-sent - a whole flight or the remainder of a partially acknowledged
    # message - leaves protected
    for variant, lim in (("", 1500 if chk.quick else 12000), ("m400", 1500 if chk.quick else 12000)):
        s13f = hsreplay13f.generate(chk, limit=lim, variant=variant)
        frows, fsumm = hsreplay13f.replay(chk, binary, s13f, variant=variant)
        nclear = 0
        for r in frows:
            for v in [x for x in r.get("law", []) if "C07" in x][:1]:
                nclear += 1
                chk.violation({"kind": "cleartext-leak", "what": v,
                               "script13f": {"scen": hsreplay13f.scen_of(variant), "steps": s13f[r["script"]]["steps"], "qmax": hsreplay13f.QMAX, "bkcap": 3}})
        chk.parts["fragmented13" + variant] = {"scripts": fsumm["scripts"], "cleartext": nclear, "diverged": fsumm.get("diverged", 0)}
        del s13f
    # (C) exporter
    ecases = [{"scen": sc, "name": n} for n, sc in (layouts + extra12 + extra13)]
    ecases += [{"scen": dict(ver="12", auth="psk", suite="TLS_PSK_WITH_AES_128_GCM_SHA256", emsC=2, emsS=2, cidC=-1, cidS=-1), "name": "psk-noems"},
               {"scen": dict(ver="12", emsC=2, emsS=2, cidC=-1, cidS=-1), "name": "cert-noems"}]
    # histories: the session is resumed from stores that an earlier, closed connection filled; export from a snapshot after Close
    st12 = dict(ver="12", helloVerify=True, stores=True, cidC=-1, cidS=-1)
    for h in (1, 2):
        ecases.append({"scen": st12, "name": "stores-history%d" % h, "history": h})
        ecases.append({"scen": dict(st12, auth="psk", suite="TLS_PSK_WITH_AES_128_CCM_8"), "name": "stores-psk-history%d" % h, "history": h})
    ecases.append({"scen": st12, "name": "stores-history1-snapshot-close", "history": 1, "snapshotClose": True})
    ecases.append({"scen": dict(ver="12", helloVerify=False, cidC=-1, cidS=-1), "name": "snapshot-close12", "snapshotClose": True})
    ecases.append({"scen": dict(ver="13", helloVerify=False, curvesC=[29], curvesS=[29], cidC=-1, cidS=-1), "name": "snapshot-close13", "snapshotClose": True})
    erows = run_cases(binary, "TestVerifExporterSecrecy", ecases, "exporter")
    cands = exports = 0
    for c, r in zip(ecases, erows):
        if r.get("lab"):
            raise vlib.Inconclusive("exporter case %s could not run: %s" % (c["name"], r["lab"]))
        cands += r["candidates"]
        exports += r["exports"]
        chk.evaluated(key="exporter:" + c["name"])
        for i in r.get("info") or []:
            chk.note("info: " + i)
        for v in (r.get("violations") or [])[:1]:
            chk.violation({"kind": "exporter-computable", "ver": c["scen"]["ver"], "what": v, "ecase": c})
    if exports < 12 * len(ecases):
        raise vlib.Inconclusive("vacuous exporter run")
    chk.parts["exporter"] = {"sessions": len(ecases), "exports": exports, "public_candidates_compared": cands}
    chk.coverage["rule"] = ("one schedule per edge of Confidentiality.tla (maximal paths first, seeded share of the rest), each on a cipher-suite x "
                            "CID x padding layout chosen round-robin (offset by the seed); distinct = layout + schedule; exporter: every layout x "
                            "3 labels x 2 lengths x both sides against PRF / HKDF outputs keyed with each public value")
    chk.assumptions += ["markers are 16 pseudo-random bytes: a false match in ciphertext has probability about 2^-128 per position",
                        "'not computable' is decided symbolically (model) and against the listed public candidates, not cryptographically",
                        "DTLS 1.3 Finished bodies are not searched for byte-wise; the monitor relies on the record type / epoch rule for them"]


def replay(chk, path):
    facts = json.load(open(path))
    binary = vlib.build("root")
    chk.evaluated(key="replay")
    if "case" in facts:
        rows = run_cases(binary, "TestVerifConfidential", [facts["case"]], "replay")
        chk.evaluated(key=facts["case"]["name"])
        if rows[0].get("violations"):
            chk.violation(dict(facts, replayed=True), replay=path)
    elif "script13f" in facts:
        rows, _ = hsreplay13f.replay_one(chk, binary, facts["script13f"])
        if any("C07" in x for r in rows for x in r.get("law", [])):
            chk.violation(dict(facts, replayed=True), replay=path)
    else:
        rows = run_cases(binary, "TestVerifExporterSecrecy", [facts["ecase"]], "replay")
        chk.evaluated(key=facts["ecase"]["name"])
        if rows[0].get("violations"):
            chk.violation(dict(facts, replayed=True), replay=path)
