"""C12 fragmentation and reassembly: spec/FragmentBuffer.tla (M4).
(A) TLC checks the formulas on the transcription (honest + hostile header domains);
(B) TLC prints one script per explored edge, each replayed on the real FragmentBuffer
    (in-package) with the C12 predicates evaluated on the real outputs;
(C) sender side: Conn.fragmentHandshake over (length, MTU) pairs, fed to the real receiver."""
import json
import os

import vlib

MODULE = "FragmentBuffer"


def replay_scripts(chk, binary, scripts, honest, tag):
    wd = vlib.scratch("c12")
    try:
        inp, out = os.path.join(wd, "in.ndjson"), os.path.join(wd, "out.ndjson")
        with open(inp, "w") as fh:
            for s in scripts:
                s["honest"] = honest
                fh.write(json.dumps(s) + "\n")
        env = {"VERIF_IN": inp, "VERIF_OUT": out, "VERIF_SEED": chk.seed}
        if len(scripts) <= 10:
            env["VERIF_PACK_ALL"] = "1"
        rc, txt = vlib.run_test(binary, "TestVerifFragScripts", env, timeout=2400)
        if rc != 0 or not os.path.exists(out):
            raise vlib.Inconclusive("fragment replay harness failed (%s): %s" % (tag, txt[-2000:]))
        rows = vlib.read_ndjson(out)
        summary = rows[-1]
        if summary.get("scripts") != len(scripts):
            raise vlib.Inconclusive("fragment replay harness processed %s of %d scripts" % (summary, len(scripts)))
        chk.traces(summary["scripts"])
        chk.evaluated(n=summary["scripts"])
        ndiv = 0
        for r in rows[:-1]:
            sc = scripts[r["script"]]
            for v in r.get("violations", []):
                if not honest and "panicked" in v:
                    chk.note("hostile script %d: %s (robustness, reported under C08)" % (r["script"], v))
                    continue
                chk.violation({"kind": "reassembly", "mode": tag + ("+packed" if r.get("packed") else ""),
                               "what": ("[consecutive pushes share a record] " if r.get("packed") else "") + v.split(": ", 1)[-1], "script": sc})
            ndiv += len(r.get("diverge", []))
            for d in r.get("diverge", [])[:1]:
                chk.note("DIVERGENCE model/code (%s script %d): %s" % (tag, r["script"], d))
        return summary, ndiv
    finally:
        import shutil
        shutil.rmtree(wd, ignore_errors=True)


def run(chk):
    t = chk.tier
    # (A) model checking
    for mode in ("honest", "hostile"):
        res = vlib.tlc_check(MODULE, "FragmentBuffer.%s.mc.%s.cfg" % (mode, t), timeout=1500)
        chk.add_tlc("mc." + mode, res)
    # vacuity guards: the two repaired deviations must be visible to the formulas
    vlib.tlc_expect_violation(MODULE, "FragmentBuffer.hostile.mc.noguard.cfg", "NoPanic", timeout=300)
    vlib.tlc_expect_violation(MODULE, "FragmentBuffer.honest.mc.noskip.cfg", "CompleteIsSurfaced", timeout=300)
    # (B) edge scripts replayed on the real FragmentBuffer
    binary = vlib.build("fragmentbuffer")
    for mode in ("honest", "hostile"):
        gen = vlib.tlc_generate(MODULE, "FragmentBuffer.%s.gen.%s.cfg" % (mode, t), timeout=1500)
        chk.add_tlc("gen." + mode, gen)
        scripts = gen.printed
        if len(scripts) < 1000:
            raise vlib.Inconclusive("too few generated scripts (%d)" % len(scripts))
        for s in scripts:
            chk.distinct.add(json.dumps(s["steps"][-1], sort_keys=True) + str(len(s["steps"])))
        summary, ndiv = replay_scripts(chk, binary, scripts, mode == "honest", mode)
        chk.parts["replay." + mode] = {"scripts": summary["scripts"], "flagged": summary["flagged"],
                                       "messages_surfaced": summary["pops"], "model_code_divergences": ndiv,
                                       "scripts_replayed_again_with_packed_records": summary.get("packed", 0)}
        chk.sample({"mode": mode, "script": scripts[len(scripts) // 2]})
        if summary["pops"] == 0:
            raise vlib.Inconclusive("vacuous replay: no message was ever surfaced")
    # (C) sender side
    root = vlib.build("root")
    wd = vlib.scratch("c12s")
    try:
        out = os.path.join(wd, "sender.json")
        rc, txt = vlib.run_test(root, "TestVerifFragSender",
                                {"VERIF_OUT": out, "VERIF_SEED": chk.seed, "VERIF_MAXMTU": 24 if chk.quick else 64},
                                timeout=1200)
        if rc != 0 or not os.path.exists(out):
            raise vlib.Inconclusive("sender harness failed: " + txt[-2000:])
        r = json.load(open(out))
        chk.parts["sender"] = {"pairs": r["pairs"], "arrival_orders": r["orders"]}
        chk.evaluated(n=r["pairs"])
        for v in r.get("violations") or []:
            chk.violation({"kind": "sender-fragmentation", "what": v})
    finally:
        import shutil
        shutil.rmtree(wd, ignore_errors=True)
    # (D) arrival orders at the level of the connection: every datagram of every flight exactly once, permuted, no timers
    import random
    rng = random.Random(chk.seed * 31 + 5)
    base = {"full12": dict(ver="12", helloVerify=True, cidC=-1, cidS=-1), "nohv12": dict(ver="12", helloVerify=False, cidC=-1, cidS=-1),
            "clientauth12": dict(ver="12", helloVerify=True, clientAuth=4, clientCert=True, verify=True, cidC=-1, cidS=-1),
            "psk12": dict(ver="12", auth="psk", suite="TLS_PSK_WITH_AES_128_GCM_SHA256", helloVerify=True, cidC=-1, cidS=-1),
            "cid12": dict(ver="12", helloVerify=True, cidC=4, cidS=2),
            "nohrr13": dict(ver="13", helloVerify=False, curvesC=[29], curvesS=[29], cidC=-1, cidS=-1),
            "hrr13": dict(ver="13", helloVerify=True, cidC=-1, cidS=-1),
            "clientauth13": dict(ver="13", helloVerify=False, curvesC=[29], curvesS=[29], clientAuth=4, clientCert=True, verify=True, cidC=-1, cidS=-1)}
    acases = []
    for name, sc in sorted(base.items()):
        for mtu in ((120, 300) if chk.quick else (100, 120, 200, 300, 500)):
            for order in ["reverse", "rotate"] + ["random"] * (2 if chk.quick else 8):
                acases.append({"name": "%s/mtu%d/%s#%d" % (name, mtu, order, len(acases)), "scen": dict(sc, mtu=mtu), "order": order,
                               "seed": rng.randint(1, 10 ** 9)})
    wd = vlib.scratch("c12a")
    try:
        inp, out = os.path.join(wd, "in.json"), os.path.join(wd, "out.ndjson")
        json.dump(acases, open(inp, "w"))
        rc, txt = vlib.run_test(root, "TestVerifC12Arrival", {"VERIF_IN": inp, "VERIF_OUT": out}, timeout=2400)
        if rc != 0 or not os.path.exists(out):
            raise vlib.Inconclusive("arrival-order harness failed: " + txt[-2000:])
        arows = vlib.read_ndjson(out)
    finally:
        import shutil
        shutil.rmtree(wd, ignore_errors=True)
    if len(arows) != len(acases):
        raise vlib.Inconclusive("arrival-order harness ran %d of %d cases" % (len(arows), len(acases)))
    lab = batches = done = 0
    for c, r in zip(acases, arows):
        if r.get("lab"):
            lab += 1
            chk.note("arrival case %s: lab: %s" % (c["name"], r["lab"]))
            continue
        chk.evaluated(key="arrival:" + c["name"].split("#")[0] + str(c["seed"]))
        batches += r["batches"]
        done += 1 if r["completed"] else 0
        if not r["completed"] or not r["delivered"]:
            chk.violation({"kind": "arrival-order", "what": "every datagram of every flight arrived exactly once (%s order, %d datagrams, %d multi-datagram "
                           "batches) and no timer fired, yet the handshake did not complete%s: a message whose fragments had all arrived was not "
                           "surfaced (client: %s, server: %s)" % (c["order"], r["datagrams"], r["batches"],
                                                                  " (" + r["stuck"] + ")" if r.get("stuck") else "", r.get("cerr") or "pending", r.get("serr") or "pending"),
                           "acase": c})
    if lab > max(2, len(acases) // 20):
        raise vlib.Inconclusive("%d of %d arrival cases could not run" % (lab, len(acases)))
    if batches < len(acases) and not chk.violations:
        raise vlib.Inconclusive("vacuous arrival-order part: only %d multi-datagram batches" % batches)
    chk.parts["arrival_orders_conn"] = {"cases": len(acases), "completed": done, "multi_datagram_batches": batches, "lab_skipped": lab}
    chk.coverage["rule"] = ("one replay script per explored edge of the FragmentBuffer model (distinct = distinct (depth,last step)); "
                            "sender: every (length, MTU) pair with MTU 1..24 (64 thorough) and length 0..3*MTU+1, seeded pairs up to 7000 bytes, "
                            "and the byte boundaries of the 24-bit length / offset fields (255..2^24-1) at MTU 1200 and 16000")
    chk.coverage["exhaustive"] = True
    chk.assumptions += [
        "byte contents are position-coded (message s, byte p -> s*16+p+1); header domains are 0..MaxLen",
        "buffer limits (1000 fragments / 2 MB) are exercised by the C08 flood, not by this model",
    ]


def replay(chk, path):
    facts = json.load(open(path))
    binary = vlib.build("fragmentbuffer")
    if "acase" in facts:
        root = vlib.build("root")
        wd = vlib.scratch("c12a")
        try:
            inp, out = os.path.join(wd, "in.json"), os.path.join(wd, "out.ndjson")
            json.dump([facts["acase"]], open(inp, "w"))
            vlib.run_test(root, "TestVerifC12Arrival", {"VERIF_IN": inp, "VERIF_OUT": out}, timeout=600)
            rows = vlib.read_ndjson(out) if os.path.exists(out) else []
        finally:
            import shutil
            shutil.rmtree(wd, ignore_errors=True)
        chk.evaluated(key="replay")
        if rows and not rows[0].get("lab") and not (rows[0]["completed"] and rows[0]["delivered"]):
            chk.violation(dict(facts, replayed=True), replay=path)
        return
    if "script" in facts:
        replay_scripts(chk, binary, [facts["script"]], str(facts.get("mode", "")).startswith("honest"), str(facts.get("mode", "replay")).split("+")[0])
