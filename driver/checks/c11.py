"""C11 negotiation honours both endpoints' policy.
(A) TLC checks the sanity theorems of the independent policy oracle spec/Negotiation.tla (VersionHighestCommon,
    SuiteWithinBoth, GroupWithinBoth, SigWithinBoth, MustMeansAllOK, EmsRequireHonoured, ListsHonoured, Symmetric, CidMirrors)
    on every enumerated configuration pair; a deliberately broken oracle (lowest common version) must be rejected;
(B) the same TLC runs print one expectation record per pair: every 1-, 2- and 3-way combination of the 19 configuration
    dimensions around the base point, plus seeded random points of the full product (tlc -simulate); each pair is run on two
    real endpoints over the lossless lab network and the observation (both HandshakeContext results, ConnectionState,
    SRTP / ALPN / version / suite / CIDs on both sides, alerts, extension types of the hellos on the wire) is compared with
    the expectation: must => both succeed; mustnot => both fail and an alert was sent; on success every negotiated value is
    a member of the oracle's allowed set; the server answers with no extension the client did not offer."""
import json
import os
import random
import shutil

import vlib

MODULE = "Negotiation"

# IANA code points (independent of the library)
SUITE_ID = {
    "TLS_AES_128_GCM_SHA256": 0x1301, "TLS_AES_256_GCM_SHA384": 0x1302, "TLS_CHACHA20_POLY1305_SHA256": 0x1303,
    "TLS_ECDHE_ECDSA_WITH_AES_128_CCM": 0xc0ac, "TLS_ECDHE_ECDSA_WITH_AES_128_CCM_8": 0xc0ae,
    "TLS_ECDHE_ECDSA_WITH_AES_128_GCM_SHA256": 0xc02b, "TLS_ECDHE_RSA_WITH_AES_128_GCM_SHA256": 0xc02f,
    "TLS_ECDHE_ECDSA_WITH_AES_256_GCM_SHA384": 0xc02c, "TLS_ECDHE_RSA_WITH_AES_256_GCM_SHA384": 0xc030,
    "TLS_ECDHE_ECDSA_WITH_AES_256_CBC_SHA": 0xc00a, "TLS_ECDHE_RSA_WITH_AES_256_CBC_SHA": 0xc014,
    "TLS_PSK_WITH_AES_128_CCM": 0xc0a4, "TLS_PSK_WITH_AES_128_CCM_8": 0xc0a8, "TLS_PSK_WITH_AES_256_CCM_8": 0xc0a9,
    "TLS_PSK_WITH_AES_128_GCM_SHA256": 0x00a8, "TLS_PSK_WITH_AES_128_CBC_SHA256": 0x00ae,
    "TLS_ECDHE_PSK_WITH_AES_128_CBC_SHA256": 0xc037, "TLS_ECDHE_ECDSA_WITH_CHACHA20_POLY1305_SHA256": 0xcca9,
    "TLS_ECDHE_RSA_WITH_CHACHA20_POLY1305_SHA256": 0xcca8, "TLS_PSK_WITH_CHACHA20_POLY1305_SHA256": 0xccab,
}
PURE_PSK = {0xc0a4, 0xc0a8, 0xc0a9, 0x00a8, 0x00ae, 0xccab}
PSK_SUITES = PURE_PSK | {0xc037}
EXT_RENEGOTIATION_INFO, EXT_COOKIE, SCSV = 65281, 44, 0x00ff
NDIMS = 19


def to_case(rec, rng, cid):
    """TLC record -> harness case; list order (preference) is not part of the property: shuffled with the seed."""
    def side(x):
        d = dict(x)
        for k in ("suites", "curves", "sigs", "srtp", "alpn"):
            d[k] = list(d[k])
            rng.shuffle(d[k])
        return d
    srv = side(rec["s"])
    if srv.get("cert") not in (None, "", "none") and rng.random() < 0.3:
        srv["certViaCallback"] = True    # the same credential handed out by a GetCertificate callback: same policy, other code path
    return {"id": cid, "a": rec["a"], "c": side(rec["c"]), "s": srv, "exp": rec["exp"]}


def nvaried(rec):
    return sum(1 for v in rec["a"] if v != 1)


def run_cases(binary, cases, budget_ms=2500, batch=1500, session=False):
    """Run cases in subprocess batches; a dying process is attributed to the cases in flight (journal)."""
    out_rows = {}
    for b in range(0, len(cases), batch):
        part = cases[b:b + batch]
        wd = vlib.scratch("c11")
        try:
            inp, out, jr = os.path.join(wd, "in"), os.path.join(wd, "out"), os.path.join(wd, "journal")
            with open(inp, "w") as fh:
                for c in part:
                    fh.write(json.dumps(dict(c, session=session)) + "\n")
            rc, txt = vlib.run_test(binary, "TestVerifNegotiation",
                                    {"VERIF_IN": inp, "VERIF_OUT": out, "VERIF_JOURNAL": jr, "VERIF_BUDGET_MS": budget_ms},
                                    timeout=1500)
            if rc != 0 or not os.path.exists(out):
                inflight = []
                if os.path.exists(jr):
                    started, done = set(), set()
                    for line in open(jr):
                        tag, cid = line.split()
                        (started if tag == "start" else done).add(int(cid))
                    inflight = sorted(started - done)
                raise vlib.Inconclusive("negotiation harness died (rc=%s) with cases %s in flight: %s" % (rc, inflight[:8], txt[-1500:]))
            rows = vlib.read_ndjson(out)[:-1]
            if len(rows) != len(part):
                raise vlib.Inconclusive("negotiation harness returned %d of %d rows" % (len(rows), len(part)))
            for r in rows:
                out_rows[r["id"]] = r
        finally:
            shutil.rmtree(wd, ignore_errors=True)
    return out_rows


def alert_seen(o):
    """An alert was put on the wire by one endpoint (alert.out hook at Conn.notify + a plaintext alert record captured, or
    the peer's reader logged it)."""
    outs = [a for a in o.get("alerts") or [] if a["dir"] == "out"]
    ins = [a for a in o.get("alerts") or [] if a["dir"] == "in"]
    if not outs:
        return False
    return o.get("wireAlerts", 0) > 0 or any(i["desc"] == x["desc"] and i["side"] != x["side"] for i in ins for x in outs)


def judge(case, o):
    """-> (violations [(kind, detail, extra)], notes [str])"""
    exp, c, s = case["exp"], o["c"], o["s"]
    viol, notes = [], []
    ver = str(exp["ver"]) if exp["ver"] else ""
    both_ok, both_fail = c["ok"] and s["ok"], (not c["ok"]) and (not s["ok"])

    def v(kind, detail, **extra):
        viol.append((kind, detail, extra))

    # a server never answers with an extension the client did not offer (RFC 5246 7.4.1.4, RFC 8446 4.2; RFC 5746 3.6)
    ch, ch1 = set(o.get("ch") or []), set(o.get("ch1") or [])
    if o.get("sh") is not None and o.get("nch", 0) > 0:
        extra = set(o["sh"]) - ch
        if SCSV in (o.get("chSuites") or []):
            extra.discard(EXT_RENEGOTIATION_INFO)
        if extra:
            v("unsolicited-extension", "ServerHello carries extension(s) %s absent from the ClientHello %s" % (sorted(extra), sorted(ch)),
              message="ServerHello")
    if o.get("hrr") is not None and o.get("nch", 0) > 0:
        extra = set(o["hrr"]) - ch1 - {EXT_COOKIE}
        if extra:
            v("unsolicited-extension", "HelloRetryRequest carries extension(s) %s absent from the ClientHello" % sorted(extra),
              message="HelloRetryRequest")
    if o.get("ee") is not None and o.get("nch", 0) > 0:
        extra = set(o["ee"]) - ch
        if extra:
            v("unsolicited-extension", "EncryptedExtensions carries extension(s) %s absent from the ClientHello" % sorted(extra),
              message="EncryptedExtensions")

    if exp["ok"] == "mustnot":
        why = ",".join(sorted(exp["why"]))
        if both_ok:
            v("completed-without-common-value", "no common value in dimension %s but both endpoints completed" % why, dimension=why)
        elif not both_fail:
            v("half-open", "no common value in dimension %s: client ok=%s server ok=%s" % (why, c["ok"], s["ok"]), dimension=why)
        elif not alert_seen(o):
            cause = "none-sent"
            if exp["cid"]["negotiated"] and ver == "12" and any(a["dir"] == "out" for a in o.get("alerts") or []):
                # Conn.notify was called, but no plaintext alert record left and the peer never decoded one
                cause = "alert-wrapped-as-cid-record-in-epoch-0"
            v("failed-without-alert", "no common value in dimension %s: both failed but no (readable) alert reached the wire "
              "(c: %s / s: %s)" % (why, c.get("err"), s.get("err")), dimension=why, cause=cause)
    elif exp["ok"] == "must" and not both_ok:
        cause = "unknown"
        csigs = set(case["c"]["sigs"])
        if o.get("sigWire") and csigs and o["sigWire"] not in csigs:
            cause = "server-signed-with-scheme-outside-client-list"
        v("compatible-but-failed", "every dimension has a common value (version %s) but client ok=%s (%s) server ok=%s (%s)" %
          (ver, c["ok"], c.get("err"), s["ok"], s.get("err")), cause=cause)
    elif exp["ok"] == "either" and not both_ok and not both_fail:
        notes.append("DIVERGENCE open outcome ended half-open: c=%s s=%s" % (c.get("err"), s.get("err")))

    if both_ok:
        if c["ver"] != ver or s["ver"] != ver:
            v("version", "negotiated version c=%s s=%s, highest common version is %s" % (c["ver"], s["ver"], ver or "none"))
        allowed = {SUITE_ID[x] for x in exp["suites"]}
        for side, so in (("client", c), ("server", s)):
            if so["suiteId"] not in allowed:
                v("suite", "%s holds cipher suite %s (0x%04x), allowed by both policies / the server key: %s" %
                  (side, so["suite"], so["suiteId"], sorted(exp["suites"])))
        if o.get("shSuite") and o["shSuite"] not in allowed:
            v("suite", "ServerHello selects 0x%04x, allowed: %s" % (o["shSuite"], sorted(exp["suites"])))
        sid = s["suiteId"]
        if sid not in PURE_PSK:
            if o.get("grpWire", 0) not in exp["groups"]:
                v("group", "server key share uses group %s, allowed by both: %s" % (o.get("grpWire"), exp["groups"]))
        if sid not in PSK_SUITES:
            if o.get("sigWire", 0) not in exp["sigs"]:
                v("signature-scheme", "server signed with scheme 0x%04x, allowed by both and the key type: %s" %
                  (o.get("sigWire", 0), ["0x%04x" % x for x in exp["sigs"]]))
        for side, so, want in (("client", c, exp["emsC"]), ("server", s, exp["emsS"])):
            if want == "yes" and not so["ems"]:
                v("ems", "%s requires extended master secret but completed without it" % side)
            if want == "no" and so["ems"]:
                v("ems", "%s disabled extended master secret but the session uses it" % side)
        for side, so in (("client", c), ("server", s)):
            if so["srtp"] not in exp["srtp"]:
                v("srtp", "%s selected SRTP profile %d, allowed: %s" % (side, so["srtp"], exp["srtp"]))
            if so["alpn"] not in exp["alpn"]:
                v("alpn", "%s negotiated ALPN protocol %r, allowed: %s" % (side, so["alpn"], exp["alpn"]))
        cid = exp["cid"]

        def ln(x):
            return -1 if x == "-" else len(x) // 2
        if cid["negotiated"]:
            if ln(c["lcid"]) != cid["lenC"] or ln(s["lcid"]) != cid["lenS"] or c["lcid"] != s["rcid"] or s["lcid"] != c["rcid"]:
                v("cid", "connection IDs c=%s/%s s=%s/%s, expected lengths client %d server %d, mirrored" %
                  (c["lcid"], c["rcid"], s["lcid"], s["rcid"], cid["lenC"], cid["lenS"]))
        elif (c["lcid"], c["rcid"], s["lcid"], s["rcid"]) != ("-", "-", "-", "-"):
            v("cid", "connection IDs in use (c=%s/%s s=%s/%s) although one side has no generator" %
              (c["lcid"], c["rcid"], s["lcid"], s["rcid"]))
        if not o.get("dataOk"):
            notes.append("DIVERGENCE application data did not flow after a successful negotiation (C01 matter)")
    return viol, notes


def facts_of(case, o, kind, detail, extra):
    exp = case["exp"]
    f = {"kind": kind, "what": detail, "ver": str(exp["ver"]) if exp["ver"] else "none", "serverKey": case["s"]["cert"] or "none",
         "case": case, "observed": {k: o.get(k) for k in ("c", "s", "alerts", "wireAlerts", "ch", "sh", "hrr", "ee", "sigWire",
                                                           "grpWire", "shSuite")}}
    f.update(extra)
    f.setdefault("dimension", kind)
    # class of the finding (the predicate known_findings.jsonl entries match on)
    serr = (o.get("s") or {}).get("err") or ""
    if f["ver"] == "13" and f["dimension"] == "alpn" and kind in ("alpn", "completed-without-common-value"):
        f["finding"] = "13-alpn-not-negotiated"
    elif f["ver"] == "13" and f["serverKey"] == "rsa" and kind in ("compatible-but-failed", "failed-without-alert") and \
            "invalid signature/hash algorithm" in serr:
        f["finding"] = "13-rsa-certificate-cannot-sign"
    elif kind == "failed-without-alert" and f.get("cause") == "alert-wrapped-as-cid-record-in-epoch-0":
        f["finding"] = "12-alert-cid-wrapped-before-keys"
    else:
        f["finding"] = kind
    return f


def evaluate(chk, binary, cases, label):
    rows = run_cases(binary, cases)
    flagged = []
    stats = {"cases": len(cases), "both_ok": 0, "both_fail": 0, "must": 0, "mustnot": 0, "either": 0, "setup_rejected": 0,
             "alerts_seen": 0}
    for case in cases:
        o = rows[case["id"]]
        stats[case["exp"]["ok"]] += 1
        if o.get("setupErr"):
            stats["setup_rejected"] += 1
            if stats["setup_rejected"] <= 3:
                chk.note("DIVERGENCE the library rejects an option set the oracle considers constructible: %s (c=%s s=%s)" %
                         (o["setupErr"], json.dumps(case["c"], sort_keys=True), json.dumps(case["s"], sort_keys=True)))
            continue
        chk.evaluated(key=json.dumps(case["a"]))
        if o["c"]["ok"] and o["s"]["ok"]:
            stats["both_ok"] += 1
        elif not o["c"]["ok"] and not o["s"]["ok"]:
            stats["both_fail"] += 1
            if alert_seen(o):
                stats["alerts_seen"] += 1
        viol, notes = judge(case, o)
        for n in notes[:1]:
            chk.note(n + " [%s]" % json.dumps(case["a"]))
        if viol and all(vlib.match_known(chk.known, facts_of(case, o, *x)) is not None for x in viol):
            # every finding of this case is a listed known finding: no need to re-run it with a larger budget
            for x in viol[:2]:
                f = facts_of(case, o, *x)
                key = "%s/v%s/%s" % (x[0], f["ver"], f.get("cause") or f.get("dimension") or "")
                classes = chk.parts.setdefault("violation_classes", {})
                classes[key] = classes.get(key, 0) + 1
                chk.violation(f)
        elif viol:
            flagged.append(case)
    # anything that involves a failure may be a timing artefact of a loaded machine: re-run twice with a larger budget
    confirmed = {}
    again = flagged
    last_rows = {c["id"]: rows[c["id"]] for c in flagged}
    for attempt in range(2):
        if not again:
            break
        rr = run_cases(binary, again, budget_ms=6000)
        still = []
        for case in again:
            o = rr[case["id"]]
            viol, _ = judge(case, o)
            if viol:
                still.append(case)
                last_rows[case["id"]] = o
        again = still
    classes = chk.parts.setdefault("violation_classes", {})
    dump = os.environ.get("VERIF_C11_DUMP")
    for case in again:
        o = last_rows[case["id"]]
        viol, _ = judge(case, o)
        confirmed[case["id"]] = viol
        for kind, detail, extra in viol[:2]:
            f = facts_of(case, o, kind, detail, extra)
            key = "%s/v%s/%s" % (kind, f["ver"], f.get("dimension") or f.get("cause") or f.get("message") or "")
            classes[key] = classes.get(key, 0) + 1
            if dump:
                with open(dump, "a") as fh:
                    fh.write(json.dumps(f, sort_keys=True) + "\n")
            chk.violation(f)
    stats["flagged_first_pass"] = len(flagged)
    stats["confirmed"] = len(confirmed)
    chk.parts["run." + label] = stats
    chk.traces(len(cases) - stats["setup_rejected"])
    return rows, stats


def run(chk):
    rng = random.Random(chk.seed)
    # (A)+(B): theorems on, and expectation records for, every 1/2/3-way combination
    gen = vlib.tlc_generate(MODULE, "Negotiation.pairs.gen.thorough.cfg", timeout=900)
    chk.add_tlc("pairs.3way", gen)
    vlib.tlc_expect_violation(MODULE, "Negotiation.pairs.mc.lowest.cfg", "VersionHighestCommon", timeout=300, workers=2)
    recs = [r for r in gen.printed if isinstance(r, dict) and "exp" in r]
    if len(recs) < 10000:
        raise vlib.Inconclusive("too few expectation records from TLC: %d" % len(recs))
    low = [r for r in recs if nvaried(r) <= 2]
    ver3 = [r for r in recs if nvaried(r) == 3 and r["a"][0] != 1 and r["a"][1] != 1]
    rest = [r for r in recs if nvaried(r) == 3 and not (r["a"][0] != 1 and r["a"][1] != 1)]
    if chk.quick:
        ver3 = rng.sample(ver3, min(len(ver3), 1500))
        rest = rng.sample(rest, min(len(rest), 1500))
    # random points of the full product
    walk = vlib.tlc_generate(MODULE, "Negotiation.walk.gen.cfg", timeout=600, simulate="num=%d" % (1500 if chk.quick else 12000),
                             depth=NDIMS + 1, seed=chk.seed)
    chk.add_tlc("walk", walk)
    wrecs = [r for r in walk.printed if isinstance(r, dict) and "exp" in r]
    if len(wrecs) < 100:
        raise vlib.Inconclusive("too few random configuration points: %d" % len(wrecs))
    # further base points (PSK suites, DTLS 1.3, client certificate + SRTP + ALPN): every 1/2-way combination around each
    seen_a = {json.dumps(r["a"]) for r in recs}
    bases = []
    for bp in (2, 3, 4):
        g = vlib.tlc_generate(MODULE, "Negotiation.pairs.gen.base%d.cfg" % bp, timeout=600)
        chk.add_tlc("pairs.base%d" % bp, g)
        rs = [r for r in g.printed if isinstance(r, dict) and "exp" in r and json.dumps(r["a"]) not in seen_a]
        if len(rs) < 500:
            raise vlib.Inconclusive("too few expectation records around base point %d: %d" % (bp, len(rs)))
        seen_a |= {json.dumps(r["a"]) for r in rs}
        if chk.quick:
            rs = rng.sample(rs, min(len(rs), 1200))
        bases.append(("base%d-2way" % bp, rs))
    binary = vlib.build("root")
    cid = 0
    groups = []
    for label, rs in [("1-2way", low), ("3way-versions", ver3), ("3way", rest), ("random", wrecs)] + bases:
        cases = []
        for r in rs:
            cases.append(to_case(r, rng, cid))
            cid += 1
        groups.append((label, cases))
    total_ok = total_fail = 0
    for label, cases in groups:
        rows, stats = evaluate(chk, binary, cases, label)
        total_ok += stats["both_ok"]
        total_fail += stats["both_fail"]
        if label == "1-2way":
            for case in cases[:400:97]:
                o = rows[case["id"]]
                chk.sample({"a": case["a"], "expected": case["exp"]["ok"], "why": case["exp"]["why"],
                            "client_ok": o["c"]["ok"], "server_ok": o["s"]["ok"], "suite": o["c"].get("suite"),
                            "alerts": [(a["side"], a["dir"], a["desc"]) for a in o.get("alerts") or []]})
    # histories: the judged handshake follows an earlier connection on the same session stores that was negotiated under ANOTHER
    # server policy (the stored session may be resumed): whatever completes must still lie within both policies of the
    # judged pair.  Pairs come from the 1/2-way records of DTLS 1.2; the earlier connection uses the same client and the same
    # server with its EMS policy set to "request" (so that the earlier handshake is compatible whenever the rest is).
    def keyof(c, s_):
        return json.dumps([{k: (sorted(v) if isinstance(v, list) else v) for k, v in c.items()},
                           {k: (sorted(v) if isinstance(v, list) else v) for k, v in s_.items()}], sort_keys=True)
    index = {keyof(r["c"], r["s"]): r for r in low}
    hist = []
    for r in low:
        if r["c"]["ver"] != "12" or r["s"]["ver"] != "12":
            continue
        for pre_ems in (0, 2):
            s1 = dict(r["s"], ems=pre_ems)
            pre = index.get(keyof(r["c"], s1))
            if pre is None or pre["exp"]["ok"] != "must" or s1 == r["s"]:
                continue
            case = to_case(r, rng, cid)
            cid += 1
            case["c"]["store"] = case["s"]["store"] = True
            case["pre"] = {"c": dict(case["c"]), "s": dict(case["s"], ems=pre_ems)}
            hist.append(case)
    if hist:
        rows_h = run_cases(binary, hist, budget_ms=4000)
        nres = nviol = 0
        for case in hist:
            o = rows_h[case["id"]]
            if o.get("setupErr") or not o.get("preOk"):
                continue
            chk.evaluated(key="hist" + json.dumps(case["a"]) + str(case["pre"]["s"]["ems"]))
            viol, _ = judge(case, o)
            # only what holds for ANY completed handshake is judged here (values within both policies); whether the second
            # handshake must complete at all is the single-connection question answered above
            # (an abbreviated handshake has no key share and no signature: those two dimensions are not judged)
            viol = [x for x in viol if x[0] in ("ems", "suite", "version", "srtp", "alpn", "cid",
                                                "unsolicited-extension", "completed-without-common-value")]
            if o["c"]["ok"] and o["s"]["ok"]:
                nres += 1
            if viol:
                rr = run_cases(binary, [case], budget_ms=6000)
                v2, _ = judge(case, rr[case["id"]])
                v2 = [x for x in v2 if x[0] in [y[0] for y in viol]]
                for kind, detail, extra in v2[:1]:
                    nviol += 1
                    chk.violation(dict(facts_of(case, rr[case["id"]], kind, detail, extra), history=True))
        chk.parts["run.histories"] = {"cases": len(hist), "second_handshake_completed": nres, "violations": nviol}
        chk.traces(len(hist))
    client_sig(chk, binary)
    if total_ok < 500 or total_fail < 200:
        raise vlib.Inconclusive("vacuous negotiation run: %d completed, %d failed handshakes" % (total_ok, total_fail))
    chk.coverage["rule"] = ("TLC enumerates every assignment that differs from the base point in <= 3 of the 19 dimensions (client/server x "
                            "version range, suite list, credentials, curves, signature schemes, EMS, SRTP, ALPN, CID generator; "
                            "hello verification) and random points of the full product (tlc -simulate, VERIF_SEED); quick tier: all "
                            "1/2-way, a seeded sample of the 3-way ones; distinct = distinct assignments run on real endpoints")
    chk.assumptions += [
        "list order (preference) is shuffled with the seed and never judged",
        "outcomes the RFCs leave open are 'either' in the oracle (one-sided SRTP, plain PSK with disjoint group lists, a common "
        "signature scheme whose hash does not match the key curve in TLS 1.3, RSA-PSS in TLS 1.2): only membership is judged there",
        "configurations the library cannot construct (no usable version/suite/credential) are outside the oracle's domain (ValidCfg)",
        "equal PSKs on both sides, client skips chain verification: authentication is C03's subject",
        "alert on the wire = alert.out hook in Conn.notify plus a captured plaintext alert record or the peer's alert.in event"]


SIGCODE = {"ecdsa_sha256": 0x0403, "ecdsa_sha384": 0x0503, "ecdsa_sha512": 0x0603, "ed25519": 0x0807,
           "rsa_pkcs1_sha256": 0x0401, "rsa_pkcs1_sha384": 0x0501, "rsa_pkcs1_sha512": 0x0601}


def run_client_sig(binary, cases):
    wd = vlib.scratch("c11s")
    try:
        inp, out = os.path.join(wd, "in"), os.path.join(wd, "out")
        json.dump([{"ver": c["ver"], "csigs": [SIGCODE[x] for x in c["csigs"]], "ssigs": [SIGCODE[x] for x in c["ssigs"]]} for c in cases],
                  open(inp, "w"))
        rc, txt = vlib.run_test(binary, "TestVerifC11ClientSig", {"VERIF_IN": inp, "VERIF_OUT": out}, timeout=900)
        if rc != 0 or not os.path.exists(out):
            raise vlib.Inconclusive("client signature harness failed: " + txt[-1500:])
        rows = vlib.read_ndjson(out)
        if len(rows) != len(cases):
            raise vlib.Inconclusive("client signature harness returned %d of %d rows" % (len(rows), len(cases)))
        return rows
    finally:
        shutil.rmtree(wd, ignore_errors=True)


def client_sig_violation(c, r):
    allowed = {SIGCODE[x] for x in c["allowed"]}
    if r["both"] and r["scheme"] and r["scheme"] not in allowed:
        return "client signed CertificateVerify with scheme 0x%04x, outside the schemes both sides allow (%s)" % (r["scheme"], sorted(c["allowed"]))
    if r["both"] and not allowed:
        return "handshake completed although the two signature-scheme lists share no scheme fitting the ECDSA keys"
    return None


def client_sig(chk, binary):
    """spec/ClientSig.tla: the client's CertificateVerify scheme lies in both endpoints' lists."""
    chk.add_tlc("clientsig.mc", vlib.tlc_check("ClientSig", "ClientSig.mc.cfg", timeout=300, workers=2))
    gen = vlib.tlc_generate("ClientSig", "ClientSig.gen.cfg", timeout=300)
    chk.add_tlc("clientsig.gen", gen)
    cases = gen.printed
    if len(cases) < 100:
        raise vlib.Inconclusive("too few client signature cases")
    rows = run_client_sig(binary, cases)
    done = seen = 0
    for c, r in zip(cases, rows):
        key = "clientsig/%s/c=%s/s=%s" % (c["ver"], "+".join(c["csigs"]) or "default", "+".join(c["ssigs"]) or "default")
        if r.get("lab"):
            continue    # a list the library refuses to construct is outside the domain
        chk.evaluated(key=key)
        chk.distinct.add(key)
        chk.traces(1)
        done += 1 if r["both"] else 0
        seen += 1 if r["scheme"] else 0
        v = client_sig_violation(c, r)
        if v:
            chk.violation({"finding": "client-signature-scheme", "kind": "client-signature-scheme", "what": v, "cscase": c, "observed": r})
    if done < 20 or seen < 20:
        raise vlib.Inconclusive("vacuous client signature part: %d completed, %d CertificateVerify schemes seen" % (done, seen))
    chk.parts["client_signature"] = {"cases": len(cases), "completed": done, "schemes_seen": seen}


def replay(chk, path):
    facts = json.load(open(path))
    if "cscase" in facts:
        c = facts["cscase"]
        r = run_client_sig(vlib.build("root"), [c])[0]
        chk.evaluated(key="replay")
        if client_sig_violation(c, r):
            chk.violation(dict(facts, replayed=True), replay=path)
        return
    case = facts["case"]
    binary = vlib.build("root")
    rows = run_cases(binary, [case], budget_ms=6000)
    o = rows[case["id"]]
    viol, _ = judge(case, o)
    for kind, detail, extra in viol[:2]:
        chk.violation(dict(facts_of(case, o, kind, detail, extra), replayed=True))
