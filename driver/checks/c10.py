"""C10 wire conformance: secrets and protected records match the RFC formulas.
The TLA+ modules Codec / CodecGen are an independent statement of the byte layouts (nonce, additional data, MAC input,
PRF seeds, key-block partition, HkdfLabel, key-schedule graph, record-number mask).  TLC
(A) checks the layouts' internal consistency on every enumerated tuple (decoders invert encoders, lengths add up) and must
    reject deliberately broken layouts;
(B) prints one JSON vector per tuple; the harness computes "TLC layout o standard-library primitive" and compares with the
    library's exported functions byte for byte in both directions (library output == oracle output; library opens what the
    oracle protects), for every cipher suite x CID x padding layout;
(C) live handshakes for every suite x {plain, CID, CID+padding} (1.2) / {plain, CID} (1.3): a passive decoder built only from
    the oracle must decrypt every captured protected record of both directions, verify both Finished values and the exporter.
"""
import concurrent.futures
import json
import os
import re
import shutil

import suites
import vlib

GEN = "CodecGen"
MODES = ["suite12", "suite13", "prf", "rec12", "hkdf", "rec13"]
BROKEN = [("rec12", "aad_len_off"), ("rec12", "hdr_seq_reversed"), ("hkdf", "hkdf_prefix"), ("suite12", "keyblock_swapped")]


def seeded_cfg(wd, name, seed):
    """copy of a spec/cfg file with the Seed constant of this run"""
    src = open(os.path.join(vlib.SPEC, "cfg", name)).read()
    src = re.sub(r"Seed = \d+", "Seed = %d" % (seed % 100000), src)
    path = os.path.join(wd, name)
    with open(path, "w") as fh:
        fh.write(src)
    return path


def generate(chk, wd, modes, module=GEN):
    """run the generation cfgs of the given modes in parallel; returns {mode: TLCResult}"""
    def one(mode):
        cfg = seeded_cfg(wd, "%s.%s.gen.%s.cfg" % (module, mode, chk.tier), chk.seed)
        return mode, vlib.tlc_generate(module, cfg, timeout=900, workers=1, java_opts="-Xss64m")
    out = {}
    with concurrent.futures.ThreadPoolExecutor(max_workers=min(8, len(modes))) as ex:
        for mode, res in ex.map(one, modes):
            out[mode] = res
            chk.add_tlc("gen." + mode, res)
            if not res.printed:
                raise vlib.Inconclusive("TLC printed no vectors for mode " + mode)
    return out


def run_harness(chk, binary, test, rows, wd, tag, env=None, timeout=900):
    """feed ndjson rows to a harness test in a subprocess; a crash is attributed through the journal"""
    inp, out, journal = (os.path.join(wd, tag + s) for s in (".in", ".out", ".journal"))
    with open(inp, "w") as fh:
        for r in rows:
            fh.write(json.dumps(r) + "\n")
    e = {"VERIF_IN": inp, "VERIF_OUT": out, "VERIF_JOURNAL": journal, "VERIF_SEED": chk.seed}
    e.update(env or {})
    rc, txt = vlib.run_test(binary, test, e, timeout=timeout)
    inflight = open(journal).read().strip() if os.path.exists(journal) else ""
    res = vlib.read_ndjson(out) if os.path.exists(out) else []
    return rc, txt, inflight, res


def facts_of(row, what):
    kind = (row.get("kind") or "").upper()
    return {"kind": row.get("k"), "suite_family": kind, "cid": bool(row.get("cid")), "suite": row.get("suite"),
            "what": what, "vector": row.get("i")}


def vectors(chk, wd, binary):
    gen = generate(chk, wd, MODES)
    rows = []
    for m in MODES:
        rows += gen[m].printed
    rc, txt, inflight, res = run_harness(chk, binary, "TestVerifC10Vectors", rows, wd, "vec")
    if rc != 0 or not res or not res[-1].get("summary"):
        if inflight.isdigit() and "panic" in txt:
            i = int(inflight)
            chk.violation({"kind": "panic", "vector": rows[i].get("k"), "what": "library panicked on a conforming input",
                           "input": rows[i], "trace": txt[-1500:]})
            return gen
        raise vlib.Inconclusive("C10 vector harness failed (rc %s, in flight %s): %s" % (rc, inflight, txt[-2500:]))
    summ = res[-1]
    if summ["vectors"] != len(rows) or summ["evaluations"] < len(rows):
        raise vlib.Inconclusive("C10 vector harness incomplete: %s" % summ)
    layout = [r for r in res[:-1] if r.get("layout")]
    if layout:
        raise vlib.Inconclusive("oracle restatement of a layout disagrees with TLC (oracle defect, not a library verdict): %s"
                                % layout[0]["layout"][:2])
    for r in res[:-1]:
        for w in (r.get("viol") or [])[:3]:
            chk.violation(dict(facts_of(r, w), input=rows[r["i"]]))
    chk.traces(len(rows))
    chk.evaluated(n=summ["evaluations"])
    for r in rows:
        chk.distinct.add(json.dumps([r.get("k"), r.get("suite") if isinstance(r.get("suite"), str) else (r.get("suite") or {}).get("name"),
                                     r.get("which"), r.get("epoch"), r.get("seq"), r.get("seq64"), len(r.get("cid") or []),
                                     len(r.get("content") or []), r.get("zeros"), r.get("ctype"), r.get("n"),
                                     str(r.get("uhdr", {}).get("s")) + str(r.get("uhdr", {}).get("l")), len(r.get("label") or [])]))
    chk.parts["vectors"] = {m: len(gen[m].printed) for m in MODES}
    chk.parts["vectors"]["library_evaluations"] = summ["evaluations"]
    r0 = next(r for r in rows if r.get("k") == "rec12" and r.get("use_cid"))
    chk.sample({"k": "rec12", "suite": r0["suite"], "epoch": r0["epoch"], "seq": r0["seq"], "cid": r0["cid"], "aad": r0["aad"],
                "nonce": r0["nonce"]})
    return gen


def keyschedule(chk, wd, gen):
    """in-package: internal/handshake key-schedule functions against the TLC derivation graph"""
    binary = vlib.build("handshake")
    rows = gen["hkdf"].printed
    rc, txt, _, res = run_harness(chk, binary, "TestVerifC10KeySchedule", rows, wd, "ks",
                                  env={"VERIF_ROUNDS": 40 if chk.quick else 400})
    if rc != 0 or not res or not res[-1].get("summary"):
        raise vlib.Inconclusive("C10 key-schedule harness failed: " + txt[-2000:])
    summ = res[-1]
    if summ.get("layout"):
        raise vlib.Inconclusive("oracle restatement disagrees with TLC: %s" % summ["layout"][:2])
    if summ["evaluations"] < 100:
        raise vlib.Inconclusive("vacuous key-schedule run: %s" % summ)
    for w in summ.get("viol") or []:
        chk.violation({"kind": "keyschedule13", "suite_family": "TLS13", "cid": False, "what": w})
    chk.evaluated("ks13", summ["evaluations"])
    chk.parts["keyschedule13"] = {"evaluations": summ["evaluations"]}


def live(chk, wd, binary, gen):
    """full handshakes for every suite x layout, decoded passively by the oracle"""
    scens = suites.record_scenarios()
    if chk.quick:
        scens = [(n, sc) for n, sc in scens if not n.endswith("/cid4/pad0")]
    # handshake variants whose transcript differs: client authentication (Certificate / CertificateVerify of the client enter
    # both Finished values), extended master secret disabled, hello verification off, fragmented flights
    nocid = {"cidC": -1, "cidS": -1}
    E = "TLS_ECDHE_ECDSA_WITH_AES_128_GCM_SHA256"
    scens += [("clientauth12", dict(ver="12", suite=E, helloVerify=True, clientAuth=4, clientCert=True, verify=True, **nocid)),
              ("clientauth12-request-only", dict(ver="12", suite=E, helloVerify=True, clientAuth=1, clientCert=True, **nocid)),
              ("clientauth12-nocert", dict(ver="12", suite=E, helloVerify=True, clientAuth=1, clientCert=False, **nocid)),
              ("clientauth12-rsa-noems", dict(ver="12", suite="TLS_ECDHE_RSA_WITH_AES_128_GCM_SHA256", helloVerify=False, auth="rsa", clientAuth=2, clientCert=True, emsC=2, emsS=2, **nocid)),
              ("noems12", dict(ver="12", suite=E, helloVerify=True, emsC=2, emsS=2, **nocid)),
              ("psk-noems12", dict(ver="12", helloVerify=False, auth="psk", suite="TLS_PSK_WITH_AES_128_GCM_SHA256", emsC=2, emsS=2, **nocid)),
              ("frag12", dict(ver="12", suite=E, helloVerify=True, mtu=300, **nocid)),
              ("clientauth13", dict(ver="13", suite="TLS_AES_128_GCM_SHA256", helloVerify=True, clientAuth=4, clientCert=True, verify=True, curvesC=[29], curvesS=[29], **nocid)),
              ("nohrr13", dict(ver="13", suite="TLS_AES_128_GCM_SHA256", helloVerify=False, curvesC=[29], curvesS=[29], **nocid))]
    rows = gen["suite12"].printed + gen["suite13"].printed + [{"name": n, "scen": sc} for n, sc in scens]
    rc, txt, inflight, res = run_harness(chk, binary, "TestVerifC10Live", rows, wd, "live", timeout=1200)
    if rc != 0 or not res or not res[-1].get("summary"):
        raise vlib.Inconclusive("C10 live harness failed (in flight %s): %s" % (inflight, txt[-2500:]))
    summ = res[-1]
    nviol = sum(1 for r in res[:-1] if r.get("viol"))
    if summ["cases"] != len(scens) or summ["lab"] > max(2, len(scens) // 20) or \
            (nviol == 0 and summ["decrypted"] < 8 * (len(scens) - summ["lab"])):
        raise vlib.Inconclusive("C10 live run incomplete: %s %s" % (summ, [r.get("lab") for r in res[:-1] if r.get("lab")][:2]))
    for r in res[:-1]:
        for w in (r.get("viol") or [])[:3]:
            kind = "exporter13" if w.startswith("EXPORTER13") else "live"
            chk.violation({"kind": kind, "suite_family": r.get("family"), "cid": bool(r.get("cid")), "ver": r.get("ver"),
                           "config": r.get("name"), "what": w})
        for nt in r.get("notes") or []:
            chk.note("%s: %s" % (r.get("name"), nt))
        if r.get("lab"):
            chk.note("lab: %s: %s" % (r.get("name"), r["lab"]))
    chk.traces(summ["cases"] - summ["lab"])
    chk.evaluated("live", summ["decrypted"])
    for n, _ in scens:
        chk.distinct.add("live/" + n)
    chk.parts["live"] = {"handshakes": summ["cases"], "records_captured": summ["records"],
                         "protected_records_decrypted_by_oracle": summ["decrypted"], "lab_failures": summ["lab"]}


def run(chk):
    wd = vlib.scratch("c10")
    try:
        for mode, broken in BROKEN:
            vlib.tlc_expect_violation(GEN, "%s.%s.broken.%s.cfg" % (GEN, mode, broken), "Consistent", timeout=300, workers=1)
        binary = vlib.build("root")
        gen = vectors(chk, wd, binary)
        for part in (lambda: keyschedule(chk, wd, gen), lambda: live(chk, wd, binary, gen)):
            try:
                part()
            except vlib.Inconclusive as ex:
                if not chk.violations:
                    raise
                chk.note("a later stage was inconclusive after violations had been established: %s" % str(ex)[:300])
        chk.level = "other"
        chk.coverage["explanation"] = (
            "layout oracle: the TLA+ modules Codec/CodecGen state the RFC byte layouts independently of the library; TLC "
            "enumerates parameter tuples, checks the layouts' internal consistency and prints vectors; the verdict is the "
            "byte-for-byte comparison of the library with 'TLC layout o Go standard-library primitive'. No state-space "
            "exploration of a protocol is involved, hence not 'model_checking'.")
        chk.coverage["rule"] = ("boundary values of epoch / sequence limbs / lengths / CID length 0..8 / padding per cipher suite "
                                "(TLC cross products, see CodecGen.tla *Cases) x seeded random secrets; distinct = distinct "
                                "parameter tuples")
        chk.assumptions += ["HMAC, SHA-1/256/384, AES, GCM, ChaCha20-Poly1305 of the Go standard library / x/crypto are correct; "
                            "CCM is implemented in the harness from RFC 3610",
                            "TLC evaluates layouts, not cryptography"]
    finally:
        shutil.rmtree(wd, ignore_errors=True)


def replay(chk, path):
    facts = json.load(open(path))
    wd = vlib.scratch("c10r")
    try:
        binary = vlib.build("root")
        gen = generate(chk, wd, ["suite12", "suite13"])
        rows = gen["suite12"].printed + gen["suite13"].printed + [facts["input"]]
        rc, txt, inflight, res = run_harness(chk, binary, "TestVerifC10Vectors", rows, wd, "vec")
        if rc != 0 and "panic" in txt:
            chk.violation(dict(facts, replayed=True))
            return
        for r in res[:-1]:
            for w in (r.get("viol") or [])[:1]:
                chk.violation(dict(facts_of(r, w), input=facts["input"], replayed=True))
    finally:
        shutil.rmtree(wd, ignore_errors=True)
