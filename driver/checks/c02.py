"""C02 handshake completes under finite loss / duplication / reordering.
(A) TLC: BothEstablish (liveness, fairness, fault budget in Next) on spec/Handshake12.tla per variant; the
    pre-fix behaviour of fsm12.finish must violate it (vacuity guard);
(B1) every explored edge of the model becomes an environment script (deliver / drop / duplicate / stale twin /
    timeout) replayed on two real endpoints with virtual timers: projected state compared after each step,
    then the network turns reliable and both endpoints must complete;
(B2) the property's own quantifier on free-running endpoints with real timers: every fault mask over the first N
    datagrams of a direction (deliver/drop/duplicate/hold), jointly for both directions for small N; completion,
    latency bound, application data both ways."""
import itertools
import json
import os
import random
import shutil

import hsreplay13
import hsreplay13f
import scen
import vlib

MODULE = "Handshake12"


def replay_model_scripts(chk, binary, prop_kind="completion"):
    """(B1) returns number of divergences"""
    total_div = 0
    for variant in ("full", "nohv", "resume", "split"):
        gen = vlib.tlc_generate(MODULE, "Handshake12.%s.gen.%s.cfg" % (variant, chk.tier), timeout=1500)
        chk.add_tlc("gen." + variant, gen)
        scripts = gen.printed
        if len(scripts) < 500:
            raise vlib.Inconclusive("too few scripts for %s" % variant)
        fams = [k for k, v in scen.MODEL12.items() if v == variant]
        wd = vlib.scratch("c02")
        try:
            for fam in fams:
                # the first family of a shape gets every script, the others a seeded share
                share = scripts if fam == fams[0] else scripts[chk.seed % 4::4]
                inp, out = os.path.join(wd, "in.ndjson"), os.path.join(wd, "out.ndjson")
                with open(inp, "w") as fh:
                    for s in share:
                        fh.write(json.dumps({"scen": scen.ALL[fam], "steps": s["steps"], "cap": 2, "bkcap": 3,
                                             "split": variant == "split"}) + "\n")
                rc, txt = vlib.run_test(binary, "TestVerifHsScripts", {"VERIF_IN": inp, "VERIF_OUT": out}, timeout=2400)
                if rc != 0 or not os.path.exists(out):
                    raise vlib.Inconclusive("script replay harness failed (%s): %s" % (fam, txt[-2000:]))
                rows = vlib.read_ndjson(out)
                summ = rows[-1]
                if summ["scripts"] != len(share) or summ.get("lab", 0) > max(3, len(share) // 200):
                    raise vlib.Inconclusive("script replay incomplete for %s: %s" % (fam, summ))
                chk.traces(summ["scripts"])
                chk.evaluated(n=summ["scripts"])
                for s in share:
                    chk.distinct.add(fam + json.dumps([(x["act"], x["arg"]) for x in s["steps"]]))
                ndiv = 0
                # an endpoint that stopped reading its socket is told from a slow machine by running the script once more, alone
                wedged = [r["script"] for r in rows[:-1] if r.get("wedge")]
                confirmed = set()
                if wedged:
                    with open(inp, "w") as fh:
                        for i in wedged[:40]:
                            fh.write(json.dumps({"scen": scen.ALL[fam], "steps": share[i]["steps"], "cap": 2, "bkcap": 3,
                                                 "split": variant == "split"}) + "\n")
                    rc2, _ = vlib.run_test(binary, "TestVerifHsScripts", {"VERIF_IN": inp, "VERIF_OUT": out + "2", "GOMAXPROCS": "4"}, timeout=1200)
                    if rc2 == 0 and os.path.exists(out + "2"):
                        for r2 in vlib.read_ndjson(out + "2")[:-1]:
                            if r2.get("wedge") or (not r2.get("lab") and not r2["completed"]):
                                confirmed.add(wedged[r2["script"]])
                for r in rows[:-1]:
                    if r.get("lab"):
                        continue
                    if r.get("wedge") and r["script"] not in confirmed:
                        chk.note("script %d of %s did not become quiescent once and passed when run again" % (r["script"], fam))
                        continue
                    if r.get("diverge"):
                        ndiv += 1
                        if ndiv <= 2:
                            chk.note("DIVERGENCE model/code (%s script %d): %s" % (fam, r["script"], r["diverge"][0]))
                    if not r["completed"]:
                        sc = share[r["script"]]
                        chk.violation({"kind": "no-completion-after-faults", "variant": fam, "final": r.get("final"), "wedge": r.get("wedge"),
                                       "cerr": r.get("cerr"), "serr": r.get("serr"),
                                       "script": {"scen": scen.ALL[fam], "steps": sc["steps"], "cap": 2, "bkcap": 3,
                                                  "split": variant == "split"}})
                total_div += ndiv
                chk.parts["replay." + fam] = {"scripts": summ["scripts"], "completed": summ.get("completed", 0),
                                              "diverged": ndiv}
            chk.sample({"variant": variant, "script": [(x["act"], x["arg"]) for x in scripts[len(scripts) // 2]["steps"]]})
        finally:
            shutil.rmtree(wd, ignore_errors=True)
    return total_div


def mask_cases(chk):
    rng = random.Random(chk.seed)
    n1 = 4 if chk.quick else 6
    cases = []
    fams = ["full12", "psk12", "clientauth12", "resume12", "frag12", "cid12", "hrr13", "nohrr13", "frag13", "dualdual", "dual-12", "dual-13", "12-dual"]
    for fam in fams:
        for d in (0, 1):
            masks = list(itertools.product(range(4), repeat=n1))
            if not chk.quick and fam in ("psk12", "cid12", "frag13"):
                masks = rng.sample(masks, len(masks) // 4)
            if fam in scen.VDUAL:
                masks = rng.sample(masks, len(masks) // 4)
            if chk.quick and fam in ("cid12", "frag13", "clientauth12"):
                masks = rng.sample(masks, len(masks) // 2)
            for m in masks:
                cases.append({"scen": scen.ALL[fam], "variant": fam, "cmask": list(m) if d == 0 else [],
                              "smask": list(m) if d == 1 else []})
        # both directions jointly
        nj = 2 if chk.quick else 3
        joint = list(itertools.product(itertools.product(range(4), repeat=nj), repeat=2))
        if not chk.quick:
            joint = rng.sample(joint, len(joint) // 2)
        for cm, sm in joint:
            cases.append({"scen": scen.ALL[fam], "variant": fam, "cmask": list(cm), "smask": list(sm)})
        # sampled longer masks
        for _ in range(40 if chk.quick else 400):
            L = rng.randint(n1 + 1, n1 + 6)
            cases.append({"scen": scen.ALL[fam], "variant": fam,
                          "cmask": [rng.choice([0, 0, 1, 2, 3]) for _ in range(L)],
                          "smask": [rng.choice([0, 0, 1, 2, 3]) for _ in range(L)]})
    return cases


def run_masks(chk, binary, cases, budget_ms=4000):
    wd = vlib.scratch("c02m")
    try:
        inp, out = os.path.join(wd, "in.ndjson"), os.path.join(wd, "out.ndjson")
        with open(inp, "w") as fh:
            for c in cases:
                fh.write(json.dumps(c) + "\n")
        rc, txt = vlib.run_test(binary, "TestVerifMasks", {"VERIF_IN": inp, "VERIF_OUT": out, "VERIF_BUDGET_MS": budget_ms},
                                timeout=3000)
        if rc != 0 or not os.path.exists(out):
            raise vlib.Inconclusive("mask harness failed: " + txt[-2000:])
        rows = vlib.read_ndjson(out)
        return rows[:-1], rows[-1]
    finally:
        shutil.rmtree(wd, ignore_errors=True)


def nfaults(c):
    return sum(1 for x in c["cmask"] + c["smask"] if x)


def run(chk):
    t = chk.tier
    for variant in ("full", "nohv", "resume", "split"):
        res = vlib.tlc_check(MODULE, "Handshake12.%s.live.%s.cfg" % (variant, t), timeout=2400)
        chk.add_tlc("live." + variant, res)
    vlib.tlc_expect_violation(MODULE, "Handshake12.resume.live.nofix.cfg", "BothEstablish", timeout=600)
    # DTLS 1.3: BothEstablish on spec/Handshake13.tla; without the re-sent HelloRetryRequest (pinned tree) it must fail
    for variant in ("hrr", "nohrr"):
        res = vlib.tlc_check("Handshake13", "Handshake13.%s.live.%s.cfg" % (variant, t), timeout=2400)
        chk.add_tlc("live13." + variant, res)
    vlib.tlc_expect_violation("Handshake13", "Handshake13.hrr.live.nofix.cfg", "BothEstablish (lost HelloRetryRequest never re-sent)", timeout=600)
    binary = vlib.build("root")
    replay_model_scripts(chk, binary)
    # (B1, DTLS 1.3) every edge script of Handshake13.tla, then the network turns reliable: both must complete
    for variant in ("hrr", "nohrr"):
        scripts13 = hsreplay13.generate(chk, variant)
        rows, summ, sc13 = hsreplay13.replay(chk, binary, variant, scripts13)
        ninc = 0
        for r in rows:
            if not r["completed"]:
                ninc += 1
                chk.violation({"kind": "no-completion-after-faults", "variant": "dtls13-" + variant, "final": r.get("final"),
                               "cerr": r.get("cerr"), "serr": r.get("serr"),
                               "script13": {"scen": sc13, "steps": scripts13[r["script"]]["steps"], "cap": 2, "bkcap": 3}})
            elif r.get("diverge") and ninc == 0 and summ.get("diverged", 0) <= 2:
                chk.note("DIVERGENCE model/code (1.3 %s script %d): %s" % (variant, r["script"], r["diverge"][0]))
        chk.parts["replay13." + variant] = {"scripts": summ["scripts"], "completed": summ.get("completed", 0), "diverged": summ.get("diverged", 0)}
    # (B1, DTLS 1.3, server flight in several datagrams) spec/Handshake13F.tla: selective acknowledgement and retransmission;
    # false acknowledgements (AckSound) lose data for good, so that predicate is judged here too
    hsreplay13f.liveness(chk)
    for variant, lim in (("", 12000 if chk.quick else 60000), ("m400", 6000 if chk.quick else 30000)):
        s13f = hsreplay13f.generate(chk, limit=lim, variant=variant)
        rows, summ = hsreplay13f.replay(chk, binary, s13f, variant=variant)
        ninc = 0
        for r in rows:
            bad = [x for x in r.get("law", []) if "C02" in x]
            if not r["completed"] or bad:
                ninc += 1
                chk.violation({"kind": "no-completion-after-faults", "variant": "dtls13-fragmented-flight" + variant, "final": r.get("final"),
                               "wedge": r.get("wedge"),
                               "what": (bad or ["both endpoints did not complete once the network turned reliable"])[0],
                               "cerr": r.get("cerr"), "serr": r.get("serr"),
                               "script13f": {"scen": hsreplay13f.scen_of(variant), "steps": s13f[r["script"]]["steps"], "qmax": hsreplay13f.QMAX, "bkcap": 3}})
            elif r.get("diverge") and ninc == 0 and summ.get("diverged", 0) <= 2:
                chk.note("DIVERGENCE model/code (1.3 fragmented flight %s script %d): %s" % (variant, r["script"], r["diverge"][0]))
        chk.parts["replay13f" + variant] = {"scripts": summ["scripts"], "completed": summ.get("completed", 0), "diverged": summ.get("diverged", 0)}
        del s13f
    # (B2)
    cases = mask_cases(chk)
    rows, summ = run_masks(chk, binary, cases)
    chk.evaluated(n=len(cases))
    for c in cases:
        chk.distinct.add("%s|%s|%s" % (c["variant"], c["cmask"], c["smask"]))
    fails = []
    for r in rows:
        c = cases[r["case"]]
        if r.get("lab"):
            raise vlib.Inconclusive("lab failure in mask run: %s" % r["lab"])
        if not r["completed"] or not r.get("dataOk"):
            fails.append((c, r))
    # timing-sensitive: re-run failing cases up to two more times before they count (DESIGN 1.2)
    confirmed = []
    if fails:
        again = [c for c, _ in fails]
        for attempt in range(2):
            rr, _ = run_masks(chk, binary, again, budget_ms=6000)
            still = {r["case"] for r in rr if not r["completed"] or not r.get("dataOk")}
            again = [again[i] for i in sorted(still)]
            if not again:
                break
        for c in again:
            confirmed.append(c)
        for c in confirmed:
            r = next(rr for cc, rr in fails if cc is c)
            chk.violation({"kind": "mask-no-completion", "variant": c["variant"], "final": r.get("final"),
                           "lost": r.get("lost"), "cerr": r.get("cerr"), "serr": r.get("serr"),
                           "dataOk": r.get("dataOk"), "case": c})
    # latency bound: the retransmission schedule (20 ms initial interval, doubling) recovers k faults within
    # 20 ms * 2^(k+2) plus scheduling slack
    worst = summ.get("maxLatencyMs", 0)
    chk.parts["masks"] = {"cases": len(cases), "completed": int(summ.get("completed", 0)), "max_latency_ms": worst,
                          "first_pass_failures": len(fails), "confirmed_failures": len(confirmed)}
    chk.sample({"mask_case": {k: cases[len(cases) // 3][k] for k in ("variant", "cmask", "smask")}})
    chk.coverage["rule"] = ("(B1) one script per explored edge of Handshake12.tla per variant, crossed with the scenario families of that "
                            "shape; (B2) every fault mask {deliver,drop,dup,hold}^N over one direction, joint masks for small N, seeded "
                            "longer masks; distinct = distinct (family, script|mask)")
    chk.assumptions += ["one datagram per flight in the model (fragmented variants are covered by masks only)",
                        "completion bound: handshake context of 4 s at a 20 ms initial interval; failures are re-run twice before they count"]


def replay(chk, path):
    facts = json.load(open(path))
    binary = vlib.build("root")
    if "case" in facts:
        rows, _ = run_masks(chk, binary, [facts["case"]], budget_ms=6000)
        for r in rows:
            if not r["completed"] or not r.get("dataOk"):
                chk.violation(dict(facts, replayed=True))
    elif "script13f" in facts:
        wd = vlib.scratch("c02r")
        try:
            inp, out = os.path.join(wd, "in"), os.path.join(wd, "out")
            open(inp, "w").write(json.dumps(facts["script13f"]) + "\n")
            vlib.run_test(binary, "TestVerifHs13FScripts", {"VERIF_IN": inp, "VERIF_OUT": out})
            chk.evaluated(key="replay13f")
            chk.evaluated(key="replay")
            for r in vlib.read_ndjson(out)[:-1]:
                if not r["completed"] or any("C02" in x for x in r.get("law", [])):
                    chk.violation(dict(facts, replayed=True), replay=path)
        finally:
            shutil.rmtree(wd, ignore_errors=True)
    elif "script13" in facts:
        wd = vlib.scratch("c02r")
        try:
            inp, out = os.path.join(wd, "in"), os.path.join(wd, "out")
            open(inp, "w").write(json.dumps(facts["script13"]) + "\n")
            vlib.run_test(binary, "TestVerifHs13Scripts", {"VERIF_IN": inp, "VERIF_OUT": out})
            chk.evaluated(key="replay13")
            chk.evaluated(key="replay")
            for r in vlib.read_ndjson(out)[:-1]:
                if not r["completed"]:
                    chk.violation(dict(facts, replayed=True), replay=path)
        finally:
            shutil.rmtree(wd, ignore_errors=True)
    elif "script" in facts:
        wd = vlib.scratch("c02r")
        try:
            inp, out = os.path.join(wd, "in"), os.path.join(wd, "out")
            open(inp, "w").write(json.dumps(facts["script"]) + "\n")
            vlib.run_test(binary, "TestVerifHsScripts", {"VERIF_IN": inp, "VERIF_OUT": out})
            for r in vlib.read_ndjson(out)[:-1]:
                if not r["completed"]:
                    chk.violation(dict(facts, replayed=True))
        finally:
            shutil.rmtree(wd, ignore_errors=True)
