"""C03 peer authentication: spec/Auth.tla.
(A) TLC: AuthBeforeEstablished (the honest endpoint reports success only if the credential its policy requires was proved) and
    ControlAccepted for every honest role x version x verification setting / client-auth policy over every credential x deviation
    of a competent rogue peer; the pinned tree's DTLS 1.3 client (accepts a server flight without Certificate) must violate it.
(B) every (policy, credential, deviation) case the model enumerates is played by a rogue pion peer against a real honest
    endpoint (credential-level deviations by configuration, message-level ones through the flight filter hook with the rogue's
    Finished / CertificateVerify recomputed); verdict from the honest HandshakeContext result and Read."""
import concurrent.futures
import json
import os
import shutil

import vlib

MODULE = "Auth"


def variants():
    return [l.strip() for l in open(os.path.join(vlib.SPEC, "cfg", "Auth.variants.txt")) if l.strip()]


def run_cases(binary, cases, tag):
    wd = vlib.scratch("c03")
    try:
        inp, out = os.path.join(wd, "in"), os.path.join(wd, "out")
        with open(inp, "w") as fh:
            for c in cases:
                fh.write(json.dumps(c) + "\n")
        rc, txt = vlib.run_test(binary, "TestVerifAuth", {"VERIF_IN": inp, "VERIF_OUT": out}, timeout=1800)
        if rc != 0 or not os.path.exists(out):
            raise vlib.Inconclusive("auth harness failed (%s): %s" % (tag, txt[-1500:]))
        rows = vlib.read_ndjson(out)
        if len(rows) != len(cases):
            raise vlib.Inconclusive("auth harness returned %d of %d rows" % (len(rows), len(cases)))
        return rows
    finally:
        shutil.rmtree(wd, ignore_errors=True)


def name(c):
    return "v%d/honest-%s/%s/%s/cred-%s/dev-%s%s%s" % (
        c["ver"], c["honest"], c["auth"], ("verify" if c["verifyChain"] else "skipverify") if c["honest"] == "c" else "policy%d" % c["policy"],
        c["cred"], c["dev"], "/" + c["suite"] if c.get("suite") else "", "/rsa" if c.get("keyType") else "") + ("/name-" + c["nameKind"] if c.get("nameKind") else "") + ("/cert+psk-server" if c.get("mixedPSK") else "") + ("/callback" if c.get("callback") else "") + ("/server-insecureskipverify" if c.get("srvInsecure") else "")


def facts(c):
    f = {"kind": "unauthenticated-peer-accepted", "ver": c["ver"], "honest": c["honest"], "cred": c["cred"], "dev": c["dev"],
         "policy": c["policy"], "verifyChain": c["verifyChain"], "auth": c["auth"], "case": c}
    if c.get("nameKind"):
        f["nameKind"] = c["nameKind"]
    if c.get("mixedPSK"):
        f["mixedPSK"] = True
    for k in ("callback", "srvInsecure"):
        if c.get(k):
            f[k] = True
    return f


def run(chk):
    vs = variants()

    def mc(v):
        return v, vlib.tlc_check(MODULE, "Auth.%s.mc.cfg" % v, timeout=300, workers=2)

    def gen(v):
        return v, vlib.tlc_generate(MODULE, "Auth.%s.gen.cfg" % v, timeout=300)
    with concurrent.futures.ThreadPoolExecutor(max_workers=8) as ex:
        for v, res in ex.map(mc, vs):
            chk.add_tlc("mc." + v, res)
        gens = list(ex.map(gen, vs))
    # the DTLS 1.3 client AS IT IS (a server flight without Certificate is accepted): the model reproduces the known finding;
    # the 13c*.mc configurations above are the design with the certificate made mandatory
    for v in ("13cv", "13ci"):
        vlib.tlc_expect_violation(MODULE, "Auth.%s.nocertok.cfg" % v, "AuthBeforeEstablished (1.3 client, certificate-less server flight)",
                                  timeout=300, workers=2)
    cases = []
    for v, res in gens:
        chk.add_tlc("gen." + v, res)
        if not res.printed:
            raise vlib.Inconclusive("no case generated for " + v)
        for c in res.printed:
            c = {k: c[k] for k in ("ver", "honest", "auth", "verifyChain", "policy", "cred", "dev", "accept", "required")}
            if c["dev"] in ("forgedProof", "mixedChain") and c["cred"] != "chainAkeyB":
                continue   # these deviations present the victim's public chain whatever the rogue's own credential: one row each
            cases.append(c)
            if c["accept"] and not c["required"] and vlib.match_known(chk.known, facts(c)) is None:
                raise vlib.Inconclusive("model accepts without the required credential: %s" % c)
    # the same decision table under other suites / key types (the model is suite-independent)
    extra = []
    for c in cases:
        if c["auth"] == "cert" and c["ver"] == 12:
            alts = [("TLS_ECDHE_ECDSA_WITH_AES_256_CBC_SHA", ""), ("TLS_ECDHE_ECDSA_WITH_CHACHA20_POLY1305_SHA256", "")]
            if c["honest"] == "c" and c["cred"] in ("good",):
                alts.append(("TLS_ECDHE_RSA_WITH_AES_128_GCM_SHA256", "rsa"))
            for s, kt in (alts[chk.seed % 2:][:1] if chk.quick else alts):
                extra.append(dict(c, suite=s, keyType=kt))
        if c["auth"] == "psk":
            for s in (["TLS_ECDHE_PSK_WITH_AES_128_CBC_SHA256"] if chk.quick else
                      ["TLS_ECDHE_PSK_WITH_AES_128_CBC_SHA256", "TLS_PSK_WITH_AES_128_CCM_8", "TLS_PSK_WITH_CHACHA20_POLY1305_SHA256",
                       "TLS_PSK_WITH_AES_128_CBC_SHA256"]):
                extra.append(dict(c, suite=s))
    # "(and server name)": the same table for an honest client whose configured server name is an IP address literal (the
    # name is not sent as SNI then, but the certificate still has to match it: the lab server's certificate carries both
    # addresses as IP SANs, the wrong-name certificate none)
    for c in cases:
        if c["honest"] == "c" and c["verifyChain"] and c["auth"] == "cert" and c["cred"] in ("good", "wrongName", "otherCA") and c["dev"] == "none":
            for nk in ("ip4", "ip6"):
                extra.append(dict(c, nameKind=nk))
    # a server that serves certificate clients and PSK clients at once: the client-authentication policy still binds the
    # certificate handshakes
    for c in cases:
        if c["honest"] == "s" and c["auth"] == "cert" and c["ver"] == 12 and not c.get("suite"):
            extra.append(dict(c, mixedPSK=True))
    # configuration corners of the honest side: a VerifyPeerCertificate callback that accepts everything is installed on top
    # of the library's verification; a server whose (shared) option list carries InsecureSkipVerify(true)
    for c in cases:
        if c["auth"] == "cert" and not c.get("suite") and c["dev"] in ("none", "emptyCert", "corruptProof"):
            if (c["honest"] == "c" and c["verifyChain"]) or (c["honest"] == "s" and c["policy"] >= 2):
                extra.append(dict(c, callback=True))
            if c["honest"] == "s" and c["policy"] >= 2:
                extra.append(dict(c, srvInsecure=True))
    # rsa rogue keys only make sense for the control and chain-level deviations
    allc = cases + [e for e in extra if not (e.get("keyType") == "rsa" and e["cred"] != "good")]
    binary = vlib.build("root")
    rows = run_cases(binary, allc, "auth")
    lab = accepted = rejected = notapplied = 0
    for c, r in zip(allc, rows):
        n = name(c)
        if r.get("panic"):
            raise vlib.Inconclusive("harness panic in %s: %s" % (n, r["panic"]))
        if r.get("lab"):
            lab += 1
            continue
        if not r["applied"]:
            notapplied += 1   # e.g. a client that was never asked for a certificate has nothing to omit
            if c["dev"] != "none" and not (c["honest"] == "s" and (c["policy"] == 0 or c["cred"] == "none")) and c["cred"] != "none":
                chk.note("DIVERGENCE: deviation not applied in %s" % n)
        chk.evaluated(key=n)
        chk.traces(1)
        if r["honestEst"]:
            accepted += 1
        else:
            rejected += 1
        if c["dev"] == "none" and c["cred"] in ("good", "goodPSK") and not r["honestEst"]:
            raise vlib.Inconclusive("honest control rejected (harness or library broken): %s: %s" % (n, r.get("honestErr")))
        if (r["honestEst"] or r.get("dataLeak")) and not c["required"]:
            chk.violation(dict(facts(c), dataLeak=r.get("dataLeak", False)))
        elif r["honestEst"] != c["accept"]:
            chk.note("DIVERGENCE model/code (not a violation: the credential was proved): %s model accept=%s real=%s (%s)" %
                     (n, c["accept"], r["honestEst"], r.get("honestErr")))
    if lab > max(2, len(allc) // 100):
        raise vlib.Inconclusive("%d of %d cases could not be executed" % (lab, len(allc)))
    if accepted < 10 or rejected < 10:
        raise vlib.Inconclusive("vacuous: accepted=%d rejected=%d" % (accepted, rejected))
    chk.parts["auth"] = {"cases": len(allc), "model_cases": len(cases), "accepted": accepted, "rejected": rejected, "lab_skipped": lab,
                         "deviation_not_applicable": notapplied}
    history(chk, binary)
    for i in (len(cases) // 3, len(cases) // 2):
        chk.sample({"case": name(cases[i]), "model": {k: cases[i][k] for k in ("accept", "required")},
                    "real": {k: rows[i].get(k) for k in ("honestEst", "honestErr", "rogueEst", "applied")}})
    chk.coverage["rule"] = ("every (honest role, version, verification setting / client-auth policy, credential, deviation) tuple reachable in Auth.tla, "
                            "each played by a rogue pion peer; plus the same table under further cipher suites / key types; plus every (policy, credential, "
                            "Certificate message sent / empty / left out, first connection stalled before ChangeCipherSpec or completed) history of "
                            "AuthHistory.tla with a second connection that resumes; distinct = tuple")
    chk.assumptions += ["the rogue is the library itself with deviations (competent: its Finished is consistent with what it sent)",
                        "chain validity facts (wrong CA / name / expiry) come from the lab PKI built with crypto/x509",
                        "DTLS 1.2 rogue clients run with extended master secret disabled (the session hash would cover the flight as generated)"]


def history_cases(printed):
    """AuthHistory.tla tuples -> harness cases (first connection with a stall point, second connection resumes)."""
    out = []
    for t in printed:
        dev = ""
        if t["certmsg"] == "omitted" and t["policy"] != 0:
            dev = "omitCert" if t["cred"] == "none" else "omitCertAndProof"   # a CertificateVerify without Certificate is refused
        elif t["certmsg"] == "empty" and t["cred"] != "none":
            dev = "emptyCert"
        out.append({"name": "policy%d/cred-%s/cert-%s/%s" % (t["policy"], t["cred"], t["certmsg"], t["stall"]),
                    "clientAuth": t["policy"], "clientCert": t["cred"] != "none", "stall": t["stall"], "helloVerify": True, "ems": 2,
                    "dev": dev, "_t": t})
    return out


def run_history(binary, cases):
    wd = vlib.scratch("c03h")
    try:
        inp, out = os.path.join(wd, "in"), os.path.join(wd, "out")
        json.dump([{k: v for k, v in c.items() if not k.startswith("_")} for c in cases], open(inp, "w"))
        rc, txt = vlib.run_test(binary, "TestVerifC03Resume", {"VERIF_IN": inp, "VERIF_OUT": out}, timeout=1800)
        if rc != 0 or not os.path.exists(out):
            raise vlib.Inconclusive("auth history harness failed: %s" % txt[-1500:])
        rows = vlib.read_ndjson(out)
        if len(rows) != len(cases):
            raise vlib.Inconclusive("auth history harness returned %d of %d rows" % (len(rows), len(cases)))
        return rows
    finally:
        shutil.rmtree(wd, ignore_errors=True)


def history_violation(c, r):
    # the second connection's client shows nothing but what it showed before: a session - resumed or not - must not be
    # established for a client whose credential cannot satisfy the policy
    t = c["_t"]
    return (r["sest"] or r["delivered"]) and t["cred"] == "none" and t["policy"] in (2, 4)


def history(chk, binary):
    """C03 across two connections sharing the server's session store (spec/AuthHistory.tla)."""
    chk.add_tlc("mc.history", vlib.tlc_check("AuthHistory", "AuthHistory.mc.cfg", timeout=300, workers=2))
    vlib.tlc_expect_violation("AuthHistory", "AuthHistory.cke.cfg", "ResumedOnlyIfAuthenticated (session stored on ClientKeyExchange)",
                              timeout=300, workers=2)
    gen = vlib.tlc_generate("AuthHistory", "AuthHistory.gen.cfg", timeout=300)
    chk.add_tlc("gen.history", gen)
    cases = history_cases(gen.printed)
    if len(cases) < 30:
        raise vlib.Inconclusive("too few history tuples (%d)" % len(cases))
    rows = run_history(binary, cases)
    lab = resumed = refused = 0
    for c, r in zip(cases, rows):
        t = c["_t"]
        if r.get("lab"):
            lab += 1
            continue
        chk.evaluated(key="history/" + c["name"])
        chk.traces(1)
        chk.distinct.add("history/" + c["name"])
        if c["dev"] and not r["applied"]:
            chk.note("DIVERGENCE: deviation %s not applied in history %s" % (c["dev"], c["name"]))
        resumed += 1 if r["resumed"] else 0
        refused += 0 if r["sest"] else 1
        if history_violation(c, r):
            chk.violation({"kind": "unauthenticated-peer-accepted", "ver": 12, "honest": "s", "cred": t["cred"], "dev": c["dev"] or "none",
                           "policy": t["policy"], "history": t["stall"], "resumed": r["resumed"], "stored": r["stored"],
                           "hcase": {k: v for k, v in c.items() if not k.startswith("_")}, "tuple": t})
        elif r["resumed"] != t["est2"]:
            chk.note("DIVERGENCE model/code in history %s: model resumes=%s code resumed=%s (stored=%s)" % (c["name"], t["est2"], r["resumed"], r["stored"]))
    if lab > 2:
        raise vlib.Inconclusive("%d of %d history cases could not be executed" % (lab, len(cases)))
    if resumed < 3 or refused < 5:
        raise vlib.Inconclusive("vacuous history part: resumed=%d refused=%d" % (resumed, refused))
    chk.parts["history"] = {"cases": len(cases), "resumed": resumed, "second_connection_refused": refused, "lab_skipped": lab}


def replay(chk, path):
    facts = json.load(open(path))
    if "hcase" in facts:
        c = dict(facts["hcase"], _t=facts["tuple"])
        rows = run_history(vlib.build("root"), [c])
        chk.evaluated(key="history/" + c["name"])
        if history_violation(c, rows[0]):
            chk.violation(dict(facts, replayed=True), replay=path)
        return
    c = facts["case"]
    rows = run_cases(vlib.build("root"), [c], "replay")
    chk.evaluated(key=name(c))
    chk.evaluated(key="replay")
    if (rows[0].get("honestEst") or rows[0].get("dataLeak")) and not c["required"]:
        chk.violation(dict(facts, replayed=True), replay=path)
