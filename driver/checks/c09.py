"""C09 nonce uniqueness.
(A) TLC: RecordNumbersUnique, StrictlyIncreasingPerEpoch, NoWrap, EpochMonotone over all interleavings of concurrent writers,
    key updates and export/import on the send side of spec/RecordLayer.tla; the lock-free configuration and an import that
    restarts the counter must fail;
(B) whole sessions on real endpoints: handshake under a fault mask (retransmissions), concurrent writers in both directions,
    key updates racing with them (1.3), export/import round trips between rounds (1.2), close_notify, for every cipher suite x
    CID x padding layout; counters moved next to 2^48 (writes must be refused, never wrap, also across export/import);
(C) the observed record numbers (wire headers / seal hook) are validated by TLC against the numbering projection
    (spec/TraceNumbering.tla): the trace must be consumed completely."""
import json
import os
import random
import shutil

import suites
import vlib

MODULE = "RecordLayer"


def build_cases(chk):
    rng = random.Random(chk.seed)
    cases = []
    faults = [0, 0, 0, 1, 2, 3]
    reps = 1 if chk.quick else 6
    for name, sc in suites.record_scenarios():
        for rep in range(reps):
            base = {"scen": dict(sc, helloVerify=True), "name": "%s/session%d" % (name, rep), "kind": "session",
                    "cmask": [rng.choice(faults) for _ in range(6)], "smask": [rng.choice(faults) for _ in range(6)],
                    "writers": rng.choice([2, 3, 4]), "writes": rng.choice([6, 10, 25]), "seed": rng.randint(1, 10 ** 6),
                    "closeEnd": True}
            if sc["ver"] == "12":
                base["exports"] = rng.choice([1, 2, 3])
            else:
                base["keyUpdates"] = rng.choice([1, 2, 3])
            cases.append(base)
        if sc["ver"] == "12":
            for k, poke in enumerate([(1 << 48) - 3, (1 << 48) - 1, (1 << 48) + 5] if not chk.quick else [(1 << 48) - 3]):
                cases.append({"scen": sc, "name": "%s/overflow%d" % (name, k), "kind": "overflow", "writers": 1, "writes": 4,
                              "exports": 1, "poke": poke, "seed": 3})
    return cases


def run_cases(chk, binary, cases, keep=True):
    wd = vlib.scratch("c09")
    try:
        inp, out = os.path.join(wd, "in"), os.path.join(wd, "out")
        with open(inp, "w") as fh:
            for c in cases:
                fh.write(json.dumps(c) + "\n")
        env = {"VERIF_IN": inp, "VERIF_OUT": out}
        if keep:
            env["VERIF_KEEP_EVENTS"] = "1"
        rc, txt = vlib.run_test(binary, "TestVerifNumbering", env, timeout=3000)
        if rc != 0 and os.path.exists(out) and "WARNING: DATA RACE" in txt and "panic:" not in txt:
            # the race detector fails the test binary whatever the race is about: judge the reports instead.  A report counts
            # for C09 when one of the two racing accesses is in the code that allocates or imports / exports record numbers;
            # any other report is passed on as information (it is not what this property is about)
            for rep in txt.split("WARNING: DATA RACE")[1:]:
                rep = rep.split("==================")[0]
                tops = []
                for block in rep.split("\n\n")[:2]:
                    fr = [l.strip() for l in block.splitlines() if l.startswith("  ") and "(" in l and not l.strip().startswith("/")]
                    tops.append(fr[0] if fr else "?")
                text = " | ".join(tops)
                if any(k in text for k in ("nextLocalSequenceNumber", "SequenceNumber", "sealRecord", "LocalEpoch", "serialize", "Clone")):
                    chk.violation({"kind": "data-race", "what": "unsynchronised accesses in the record-numbering path: " + text,
                                   "report": rep[:3000]})
                else:
                    chk.note("data race reported by the race detector OUTSIDE the record-numbering path (not judged by C09): " + text)
        elif rc != 0 or not os.path.exists(out):
            raise vlib.Inconclusive("numbering harness failed: " + txt[-2000:])
        rows = vlib.read_ndjson(out)
        if len(rows) != len(cases):
            raise vlib.Inconclusive("numbering harness ran %d of %d cases" % (len(rows), len(cases)))
        return rows
    finally:
        shutil.rmtree(wd, ignore_errors=True)


def validate_traces(chk, cases, rows):
    """(C) TLC consumes the numbers of all sessions; a rejection names the offending record."""
    lines, owner = [], []
    for r in rows:
        order = {}
        for rec in r.get("records") or []:
            # emission order is per side; the harness lists 1.3 seals first, then wire records: keep per-side order
            lines.append({"ev": "rec", "side": "%s#%d" % (rec["side"], rec.get("inc", 0)) if False else rec["side"],
                          "epoch": rec["epoch"], "hi": rec["seq"] >> 24, "lo": rec["seq"] & 0xFFFFFF})
            owner.append((r["case"], rec))
        lines.append({"ev": "reset"})
        owner.append((r["case"], None))
    total = len(lines)
    start = 0
    rejected = []
    while start < total:
        chunk = lines[start:start + 60000]
        res = vlib.tlc_trace("TraceNumbering", "TraceNumbering.cfg", chunk, timeout=900)
        chk.parts.setdefault("trace_validation", {"events": 0, "tlc_runs": 0})
        chk.parts["trace_validation"]["tlc_runs"] += 1
        if res.ok:
            chk.parts["trace_validation"]["events"] += len(chunk)
            start += len(chunk)
            continue
        if not any("Postcondition" in e for e in res.errors) or res.depth < 1:
            raise vlib.Inconclusive("trace validation failed to run: %s" % res.errors[:3])
        bad = start + res.depth - 1          # 0-based index of the line that could not be consumed
        case_id, rec = owner[bad]
        rejected.append((case_id, rec))
        chk.parts["trace_validation"]["events"] += res.depth
        # continue after the end of the offending session so that the rest is still examined
        nxt = bad
        while nxt < total and lines[nxt]["ev"] != "reset":
            nxt += 1
        start = nxt + 1
        if len(rejected) >= 20:
            break
    return rejected


def run(chk):
    t = chk.tier
    res = vlib.tlc_check(MODULE, "RecordLayer.send.%s.cfg" % t, timeout=1500)
    chk.add_tlc("send", res)
    res = vlib.tlc_check(MODULE, "RecordLayer.send.overflow.cfg", timeout=600)
    chk.add_tlc("send.overflow", res)
    vlib.tlc_expect_violation(MODULE, "RecordLayer.send.nolock.cfg", "StrictlyIncreasingPerEpoch", timeout=300)
    vlib.tlc_expect_violation(MODULE, "RecordLayer.send.badimport.cfg", "RecordNumbersUnique", timeout=300)
    binary = vlib.build("root", race=not chk.quick)
    cases = build_cases(chk)
    rows = run_cases(chk, binary, cases)
    nrec = 0
    flagged = set()
    for r in rows:
        c = cases[r["case"]]
        chk.evaluated(key=c["name"])
        if r.get("lab"):
            raise vlib.Inconclusive("session %s could not run: %s" % (c["name"], r["lab"]))
        nrec += r["nrecords"]
        for v in (r.get("violations") or [])[:2]:
            flagged.add(r["case"])
            chk.violation({"kind": "record-number", "what": v, "config": c["name"], "case": c})
    chk.coverage["evaluations"] += nrec
    rejected = validate_traces(chk, cases, rows)
    chk.traces(len(rows))
    for case_id, rec in rejected:
        c = cases[case_id]
        if case_id not in flagged:
            chk.violation({"kind": "record-number-trace", "what": "TLC: the numbering projection cannot consume record %s" % rec,
                           "config": c["name"], "case": c})
    if flagged and not rejected:
        raise vlib.Inconclusive("harness predicate and TLC trace validation disagree")
    if nrec < 1000:
        raise vlib.Inconclusive("vacuous numbering run (%d records)" % nrec)
    # (D) DTLS 1.3 handshakes whose flights span several datagrams (spec/Handshake13F.tla scripts: partial acknowledgements,
    # selective retransmission of message remainders, time-outs): the numbers of all sealed records, per side and epoch
    import hsreplay13f
    plain = vlib.build("root")      # the script lab reads the machines' state between steps: not for the race-detector build
    for variant in ("", "m400"):
        s13f = hsreplay13f.generate(chk, limit=1500 if chk.quick else 12000, variant=variant)
        frows, fsumm = hsreplay13f.replay(chk, plain, s13f, variant=variant)
        nnum = 0
        for r in frows:
            for v in [x for x in r.get("law", []) if "C09" in x][:1]:
                nnum += 1
                chk.violation({"kind": "record-number", "what": v, "config": "dtls13-fragmented-flight" + variant,
                               "script13f": {"scen": hsreplay13f.scen_of(variant), "steps": s13f[r["script"]]["steps"], "qmax": hsreplay13f.QMAX, "bkcap": 3}})
        chk.parts["fragmented13" + variant] = {"scripts": fsumm["scripts"], "numbering_violations": nnum, "diverged": fsumm.get("diverged", 0)}
        del s13f
    chk.parts["sessions"] = {"cases": len(cases), "records_observed": nrec, "payloads_delivered": sum(r["data"] for r in rows),
                             "writes_refused_at_2^48": sum(r["refused"] for r in rows), "race_detector": not chk.quick}
    chk.sample({"config": cases[0]["name"], "first_records": (rows[0].get("records") or [])[:6]})
    chk.coverage["rule"] = ("one session per cipher suite x CID x padding layout (x repetitions) with seeded fault masks, writer counts, "
                            "key updates / export-import round trips; overflow cases per 1.2 layout; distinct = distinct case names")
    chk.assumptions += ["DTLS 1.3 record numbers are taken from the seal hook (they are masked on the wire); DTLS 1.2 from wire headers",
                        "data races are observed by the Go race detector in the thorough tier only"]


def replay(chk, path):
    facts = json.load(open(path))
    if "script13f" in facts:
        import hsreplay13f
        rows, _ = hsreplay13f.replay_one(chk, vlib.build("root"), facts["script13f"])
        if any("C09" in x for r in rows for x in r.get("law", [])):
            chk.violation(dict(facts, replayed=True), replay=path)
        return
    rows = run_cases(chk, vlib.build("root"), [facts["case"]])
    for r in rows:
        if r.get("violations"):
            chk.violation(dict(facts, replayed=True))
