"""C19 exported state resumes the same session without reusing record numbers.
(A) TLC on spec/ExportImport.tla: ImportContinues, SameSession, TrafficContinues, CorruptKeyFieldsNeverAuthenticate over all
    interleavings of Write / Deliver / Lose / Export / Import (pristine or corrupted bytes) on both sides; the import that restarts the
    counter, loses keys or parameters, and the stale snapshot (old connection keeps writing) must fail; the literal reading of the
    property's second sentence (CorruptNeverAuthenticates) fails for the code's format, which carries no integrity check, and holds
    with one (BlobIntegrity);
(B) every edge script TLC generates (export point = after i records out and j in, either side, repeated, both sides) is executed on
    real sessions for every cipher suite x connection ID x padding layout x {SRTP+MKI, ALPN, session id, EMS} feature set: MarshalBinary,
    UnmarshalBinary, ResumeWithOptions on the same lab endpoint, application data both ways with the untouched peer, ExportKeyingMaterial
    (3 labels) on original / resumed / peer, negotiated parameters before / after, record numbers on the wire across the import;
(C) corruption: every truncation and seeded bit flips / byte replacements / bursts / extensions of the serialised bytes, one process per
    batch with a journal naming the blob in flight: refused with an error, or the imported connection authenticates nothing in either
    direction (record of the imported connection checked against the peer's record protection, record of the peer read from the imported
    connection), never a panic; DTLS 1.3 state is refused by MarshalBinary, UnmarshalBinary and ResumeWithOptions."""
import importlib
import json
import os
import random
import shutil

import suites
import vlib

MODULE = "ExportImport"

BROKEN = [
    ("ExportImport.broken.badcounter.cfg", "ImportContinues"),
    ("ExportImport.broken.badcounter-traffic.cfg", "TrafficContinues"),
    ("ExportImport.broken.badkeys.cfg", "SameSession"),
    ("ExportImport.broken.badparams.cfg", "SameSession"),
    ("ExportImport.broken.stale.cfg", "ImportContinues"),
    ("ExportImport.broken.literal.cfg", "CorruptNeverAuthenticates"),
    ("ExportImport.broken.replay.cfg", "NoReplayAcrossImport"),
]

FEATURES = [
    ("plain", {}),
    ("srtp+mki", {"srtpC": [1, 2, 7], "srtpS": [2, 1], "_mkiC": "a1b2c3d4", "_mkiS": "0102"}),
    ("alpn+sess", {"alpnC": ["lab/1", "h2"], "alpnS": ["h2", "lab/1"], "stores": True}),
    ("all", {"srtpC": [7, 8], "srtpS": [8, 7], "alpnC": ["c19"], "alpnS": ["c19"], "stores": True, "emsC": 1, "emsS": 1, "_mkiC": "ff"}),
]


def scenarios():
    out = []
    for name, sc in suites.record_scenarios():
        if sc["ver"] != "12":
            continue
        out.append((name, sc))
    # an application configured for both versions whose session negotiated DTLS 1.2 (the peer speaks 1.2 only)
    base = dict(out[0][1])
    out.append(("dual-config-client", dict(base, cver="dual", sver="12")))
    out.append(("dual-config-server", dict(base, cver="12", sver="dual")))
    return out


def with_feature(sc, feat):
    fsc = dict(sc)
    extra = {}
    for k, v in feat.items():
        if k.startswith("_"):
            extra[k[1:]] = v
        else:
            fsc[k] = v
    return fsc, extra


def dedupe_prefixes(scripts):
    def key(s):
        return tuple((x["act"], x["e"], json.dumps(x["arg"])) for x in s["steps"])
    keyed = [(key(s), s) for s in scripts]
    prefixes = set()
    for k, _ in keyed:
        for n in range(1, len(k)):
            prefixes.add(k[:n])
    seen, out = set(), []
    for k, s in keyed:
        if k in prefixes or k in seen:
            continue
        seen.add(k)
        out.append(s)
    return out


def run_harness(test, cases, timeout=1800, env=None):
    wd = vlib.scratch("c19")
    try:
        inp, out = os.path.join(wd, "in"), os.path.join(wd, "out")
        with open(inp, "w") as fh:
            for c in cases:
                fh.write(json.dumps(c) + "\n")
        e = {"VERIF_IN": inp, "VERIF_OUT": out}
        e.update(env or {})
        rc, txt = vlib.run_test(BIN[0], test, e, timeout=timeout)
        rows = vlib.read_ndjson(out) if os.path.exists(out) else []
        return rc, txt, rows, wd
    except Exception:
        shutil.rmtree(wd, ignore_errors=True)
        raise


BIN = [None]


def run_corruption(chk, cases):
    """One process per batch; when the process dies the journal names the blob in flight and the batch resumes after that case."""
    wd = vlib.scratch("c19c")
    rows = []
    try:
        inp, out, journal = os.path.join(wd, "in"), os.path.join(wd, "out"), os.path.join(wd, "journal")
        with open(inp, "w") as fh:
            for c in cases:
                fh.write(json.dumps(c) + "\n")
        first = 0
        crashes = 0
        while first < len(cases):
            rc, txt = vlib.run_test(BIN[0], "TestVerifStateCorruption",
                                    {"VERIF_IN": inp, "VERIF_OUT": out, "VERIF_JOURNAL": journal, "VERIF_FIRST": first}, timeout=2400)
            rows = vlib.read_ndjson(out) if os.path.exists(out) else []
            if rc == 0:
                break
            # the process died: attribute it to the blob in flight
            last = None
            if os.path.exists(journal):
                for line in open(journal):
                    try:
                        last = json.loads(line)
                    except Exception:
                        pass
            if last is None or last.get("state") != "begin" or "panic" not in txt:
                raise vlib.Inconclusive("corruption harness died without a journal entry to blame: " + txt[-2000:])
            crashes += 1
            c = cases[last["case"]]
            chk.violation({"kind": "panic", "what": "the library panicked while importing corrupted bytes (%s)" % last["mutation"],
                           "config": c["name"], "corrupt_case": c, "mutation": last["mutation"], "blob": last.get("blob"),
                           "trace": txt[-1500:]})
            first = last["case"] + 1
            if crashes > 5:
                break
        return rows
    finally:
        shutil.rmtree(wd, ignore_errors=True)


def run(chk):
    t = chk.tier
    res = vlib.tlc_check(MODULE, "ExportImport.mc.%s.cfg" % t, timeout=2400)
    chk.add_tlc("mc", res)
    res = vlib.tlc_check(MODULE, "ExportImport.integrity.mc.cfg", timeout=900)
    chk.add_tlc("mc.integrity", res)
    for cfg, what in BROKEN:
        vlib.tlc_expect_violation(MODULE, cfg, what, timeout=600)
    chk.parts["broken_variants_rejected"] = [c for c, _ in BROKEN]
    gen = vlib.tlc_generate(MODULE, "ExportImport.gen.%s.cfg" % t, timeout=1800)
    chk.add_tlc("gen", gen)
    edges = len(gen.printed)
    scripts = [s for s in dedupe_prefixes(gen.printed) if any(x["act"] == "Import" for x in s["steps"])]
    if len(scripts) < 200:
        raise vlib.Inconclusive("too few export/import scripts (%d)" % len(scripts))
    rng = random.Random(chk.seed)
    rng.shuffle(scripts)
    BIN[0] = vlib.build("root", race=not chk.quick)
    scens = scenarios()
    per = 48 if chk.quick else 150
    cases = []
    cursor = 0
    for si, (name, sc) in enumerate(scens):
        feats = [FEATURES[(si + chk.seed) % len(FEATURES)]] if chk.quick else FEATURES
        for fname, feat in feats:
            fsc, extra = with_feature(sc, feat)
            n = per if chk.quick else per // 2
            for _ in range(n):
                s = scripts[cursor % len(scripts)]
                cursor += 1
                cases.append(dict({"name": "%s/%s/%s" % (name, fname, "".join("%s%s" % (x["act"][0], x["e"]) for x in s["steps"])),
                                   "scen": fsc, "steps": s["steps"], "warm": rng.choice([0, 0, 1, 2, 3, 5, 8])}, **extra))
    rc, txt, rows, wd = run_harness("TestVerifExportImport", cases, timeout=2400, env={"VERIF_KEEP_EVENTS": "1"})
    shutil.rmtree(wd, ignore_errors=True)
    if rc != 0 or not rows:
        raise vlib.Inconclusive("export/import harness failed: " + txt[-3000:])
    summ = rows[-1]
    if summ.get("cases") != len(cases):
        raise vlib.Inconclusive("export/import harness ran %s of %d cases" % (summ.get("cases"), len(cases)))
    chk.traces(len(cases))
    nlab = ndiv = 0
    for r in rows[:-1]:
        c = cases[r["case"]]
        if r.get("lab"):
            nlab += 1
            continue
        for v in (r.get("violations") or [])[:2]:
            chk.violation({"kind": v["kind"], "what": v["what"], "config": c["name"], "case": c})
        if r.get("diverge"):
            ndiv += 1
            if ndiv <= 4:
                chk.note("DIVERGENCE model/code (not a verdict): %s [%s]" % (r["diverge"][0], c["name"]))
    # (C) the wire record numbers of every session, all incarnations, are validated by TLC against the numbering
    # projection of RecordLayer.tla (TraceNumbering.tla): the trace must be consumed completely
    c09 = importlib.import_module("checks.c09")
    flagged = set(r["case"] for r in rows[:-1] if any(v["kind"] == "record-number-reused" for v in (r.get("violations") or [])))
    rejected = c09.validate_traces(chk, cases, [dict(case=r["case"], records=r.get("recs") or []) for r in rows[:-1] if not r.get("lab")])
    if not chk.violations and not rejected and chk.parts.get("trace_validation", {}).get("events", 0) < 5 * len(cases):
        raise vlib.Inconclusive("vacuous trace validation: %s" % chk.parts.get("trace_validation"))
    for case_id, rec in rejected:
        if case_id not in flagged:
            chk.violation({"kind": "record-number-trace", "what": "TLC: the numbering projection cannot consume record %s" % rec,
                           "config": cases[case_id]["name"], "case": cases[case_id]})
    if flagged and not rejected:
        raise vlib.Inconclusive("harness predicate and TLC trace validation disagree on record numbers")
    for c in cases:
        chk.distinct.add(c["name"])
    chk.evaluated(n=summ.get("records", 0))
    if nlab > max(3, len(cases) // 100):
        raise vlib.Inconclusive("%d of %d export/import sessions could not run" % (nlab, len(cases)))
    if summ.get("imports", 0) < len(cases) or summ.get("delivered", 0) < 2 * len(cases) - 50:
        if not chk.violations:
            raise vlib.Inconclusive("vacuous export/import run: %s" % summ)
    chk.parts["sessions"] = dict(summ, edge_scripts=edges, scripts_with_import=len(scripts), scenarios=len(scens), model_divergences=ndiv)
    chk.sample({"session": cases[0]["name"], "steps": [(x["act"], x["e"], x["arg"]) for x in cases[0]["steps"]]})

    # ---- corrupted bytes
    ccases = []
    pick = scens if not chk.quick else [scens[(i * 5 + chk.seed) % len(scens)] for i in range(12)]
    for ci, (name, sc) in enumerate(pick):
        fname, feat = FEATURES[(ci + chk.seed) % len(FEATURES)]
        fsc, extra = with_feature(sc, feat)
        for side in ("c", "s"):
            ccases.append(dict({"name": "%s/%s/corrupt-%s" % (name, fname, side), "scen": fsc, "side": side,
                                "seed": rng.randint(1, 10 ** 9), "flips": 250 if chk.quick else 800,
                                "trunc": ci % 3 == 0 or not chk.quick, "extend": 6}, **extra))
    crow = run_corruption(chk, ccases)
    tried = rejected = useless = nonkey = unchanged = controls = 0
    fields = {}
    byfam = {}
    for r in crow:
        c = ccases[r["case"]]
        chk.evaluated(key="corrupt:" + c["name"])
        if r.get("lab"):
            raise vlib.Inconclusive("corruption case %s could not run: %s" % (c["name"], r["lab"]))
        tried += r["tried"]
        rejected += r["rejected"]
        useless += r["useless"]
        nonkey += r["nonKeyAccepted"]
        unchanged += r["unchanged"]
        controls += 1 if r.get("control") else 0
        for f, n in (r.get("fields") or {}).items():
            fields[f] = fields.get(f, 0) + n
        for f, n in (r.get("byFamily") or {}).items():
            byfam[f] = byfam.get(f, 0) + n
        for v in r.get("violations") or []:
            chk.violation({"kind": v["kind"], "what": v["what"][:1500], "config": c["name"], "corrupt_case": c})
        if r["nonKeyAccepted"]:
            chk.violation({"kind": "corrupt-accepted-authenticates", "keyfields": False, "config": c["name"], "corrupt_case": c,
                           "what": "%d corrupted variants of the serialised state were accepted and the imported connection still authenticates records; "
                                   "only fields outside the key material differ, e.g. %s" % (r["nonKeyAccepted"], r.get("nonKeyExamples"))})
    chk.coverage["evaluations"] += tried
    if len(crow) != len(ccases) and not chk.violations:
        raise vlib.Inconclusive("corruption harness ran %d of %d cases" % (len(crow), len(ccases)))
    if controls < len(crow) or tried < 1000:
        if not chk.violations:
            raise vlib.Inconclusive("vacuous corruption run: %d blobs tried, pristine control accepted in %d of %d cases" % (tried, controls, len(crow)))
    chk.parts["corruption"] = {"cases": len(ccases), "blobs_tried": tried, "refused_with_error": rejected, "accepted_but_authenticates_nothing": useless,
                               "accepted_identical_state": unchanged, "accepted_nonkey_fields_changed": nonkey, "fields_hit": fields, "outcome_by_mutation_family": byfam,
                               "pristine_controls": controls}
    # ---- DTLS 1.3 state is refused
    c13 = [{"name": "%s" % s, "scen": dict(ver="13", suite=s, cidC=-1, cidS=-1, curvesC=[29], curvesS=[29]), "steps": []} for s in suites.SUITES13]
    rc, txt, rows13, wd = run_harness("TestVerifState13Refused", c13, timeout=300)
    shutil.rmtree(wd, ignore_errors=True)
    if rc != 0 or len(rows13) != len(c13):
        raise vlib.Inconclusive("DTLS 1.3 refusal harness failed: " + txt[-1500:])
    checks = 0
    for r in rows13:
        chk.evaluated(key="refuse13:" + r["name"])
        if r.get("lab"):
            raise vlib.Inconclusive("DTLS 1.3 session could not be established: " + r["lab"])
        checks += r["checks"]
        for v in r.get("violations") or []:
            chk.violation({"kind": "dtls13-state-accepted", "what": v, "config": r["name"]})
    if checks < 6 * len(c13):
        raise vlib.Inconclusive("DTLS 1.3 refusal: only %d checks ran" % checks)
    chk.parts["dtls13_refused"] = {"sessions": len(c13), "checks": checks}
    chk.coverage["rule"] = ("scripts = edges of ExportImport.tla that contain an import (prefixes dropped), dealt round-robin over 51 suite x CID x padding "
                            "layouts x feature sets (quick: one feature set per layout, rotating with the seed); corruption: 12 (quick) / 51 layouts x both "
                            "sides x (all truncations, seeded flips, extensions); distinct = session names + corruption cases")
    chk.assumptions += [
        "data races are observed by the Go race detector in the thorough tier only",
        "export happens at a quiescent point of the exported connection, which writes nothing afterwards (StaleImport = FALSE); the model shows that a "
        "connection that keeps writing after the snapshot reuses numbers",
        "the replay window is not part of the serialised state (DESIGN Appendix B 21): records accepted before the export are accepted again by the "
        "imported connection; the property does not speak about it (NoReplayAcrossImport fails on purpose in the model)",
        "authentication of a record of the imported connection is decided with the untouched peer's record protection in-package (no replay window), "
        "so that repeated attempts with equal sequence numbers are judged correctly",
    ]


def replay(chk, path):
    facts = json.load(open(path))
    BIN[0] = vlib.build("root")
    if "case" in facts:
        rc, txt, rows, wd = run_harness("TestVerifExportImport", [facts["case"]])
        shutil.rmtree(wd, ignore_errors=True)
        for r in rows[:-1]:
            for v in r.get("violations") or []:
                chk.violation(dict(facts, replayed=True, what=v["what"], kind=v["kind"]))
    elif "corrupt_case" in facts:
        for r in run_corruption(chk, [facts["corrupt_case"]]):
            for v in r.get("violations") or []:
                chk.violation(dict(facts, replayed=True, what=v["what"][:1500], kind=v["kind"]))
            if r.get("nonKeyAccepted"):
                chk.violation(dict(facts, replayed=True))
