"""C20 DTLS 1.3 key updates keep data exactly-once and epochs monotonic.
(A) TLC: UpdateKeysReturnsAfterAck, AtMostOnceUnmodified, ArrivalDelivers / DeliveredIfArrives, WriteEpochMonotone,
    SealEpochMonotone, KeySuccession, UnauthorisedEpochRejected (+ WriteEpochAuthorised, NetEpochsAuthorised) on
    spec/PostHandshake13.tla over all interleavings of user UpdateKeys / Write calls, datagram delivery / loss /
    duplication / reordering and retransmission timers, in several small exhaustive configurations; eight broken
    variants (commit at send, accept any epoch with matching low bits, no replay window, return on send, wrong
    successor, ...) must be rejected.
(B) every explored edge of the model becomes an environment script; a seeded sample of them is replayed on two real
    DTLS 1.3 connections over the lab network with the virtual timer, the projected state is compared after each step
    and the property's predicates are evaluated on the real outputs.
(C) free-running sessions (real timers, seeded loss / duplication / reordering, UpdateKeys from both sides racing with
    several writer goroutines per side, a key holder's record injected under a not yet authorised epoch) are recorded and
    validated by TLC against spec/TracePostHandshake13.tla (the whole trace must be consumed), plus the harness predicates."""
import json
import os
import random
import shutil
import threading

import vlib

MODULE = "PostHandshake13"
TRACE = "TracePostHandshake13"

BROKEN = [("bad.commitatsend.seal", "SealEpochMonotone"), ("bad.commitatsend.arrival", "ArrivalDelivers"),
          ("bad.commitatsend.auth", "WriteEpochAuthorised"), ("bad.anyepoch", "UnauthorisedEpochRejected"),
          ("bad.noreplay", "AtMostOnceUnmodified"), ("bad.returnonsend", "UpdateKeysReturnsAfterAck"),
          ("bad.successor.keys", "KeySuccession"), ("bad.successor.arrival", "ArrivalDelivers")]
SAFE = {"quick": ["a", "b", "c", "d", "e", "f"], "thorough": ["a", "b", "c", "d", "f", "g"]}
# (generation cfg, TicketPending, scripts sampled); the thorough tier replays (almost) every edge of the same graphs
GEN = {"quick": [("quick.a", False, 1500), ("quick.b", True, 1000), ("quick.c", False, 1300), ("quick.d", False, 1000), ("quick.e", False, 400)],
       "thorough": [("quick.a", False, 16000), ("quick.b", True, 13100), ("quick.c", False, 12000), ("quick.d", False, 12800),
                    ("quick.e", False, 6300)]}

VIOLATION_WHAT = {
    "updatekeys-returned-before-ack": "UpdateKeys returned nil before the peer's ACK of that KeyUpdate was received",
    "payload-twice": "a payload was handed to Read twice",
    "payload-modified": "Read returned a payload that the peer never wrote",
    "arrived-not-delivered": "a payload whose datagram arrived (no fault on it, epoch authorised) was never handed to Read",
    "write-epoch-decreased": "the sending epoch of a side decreased",
    "seal-epoch-decreased": "a record was sealed under an epoch below one the same side had already used",
    "successor-secret": "a new generation's secret is not the RFC 8446 traffic-update successor of the previous one",
    "unauthorised-epoch-accepted": "a record under an epoch the receiver had not authorised (or does not retain) was accepted",
    "write-epoch-unauthorised": "a side moved its write epoch to a generation the peer has not authorised (no ACK received)",
    "trace-rejected": "TLC cannot continue the recorded execution in the C20 projection",
}


def tlc_check(module, cfg, **kw):
    """vlib.tlc_check, but a TLC process that disappears without reporting anything (killed from outside while the
    machine is shared) is started again before the run counts as inconclusive."""
    for _ in range(2):
        res = vlib.tlc(module, cfg, **kw)
        if res.ok or res.violated() or res.errors:
            break
        vlib.log("[tlc] %s/%s ended without a verdict (rc %s), retrying" % (module, cfg, res.rc))
    if not res.ok:
        raise vlib.Inconclusive("model check %s/%s failed: %s\n%s" % (module, cfg, res.errors[:3], res.out[-3000:]))
    vlib.log("[tlc] %s/%s: %d generated, %d distinct, depth %d, %.1fs" % (module, cfg, res.generated, res.distinct, res.depth, res.wall))
    return res


def run_model(chk):
    t = chk.tier
    for name in SAFE[t]:
        res = tlc_check(MODULE, "%s.safe.%s.%s.cfg" % (MODULE, t, name), timeout=1500)
        chk.add_tlc("safe." + name, res)
    res = tlc_check(MODULE, "%s.live.%s.cfg" % (MODULE, t), timeout=1500)
    chk.add_tlc("live", res)
    for cfg, what in BROKEN:
        vlib.tlc_expect_violation(MODULE, "%s.%s.cfg" % (MODULE, cfg), what, timeout=300)
    r = vlib.tlc(MODULE, MODULE + ".live.bad.cfg", timeout=300)
    if r.ok or not r.temporal:
        raise vlib.Inconclusive("vacuity guard: live.bad was expected to violate DeliveredIfArrives")
    chk.parts["broken_variants_rejected"] = [c for c, _ in BROKEN] + ["live.bad"]


def generate(chk):
    """One script per explored edge of each generation configuration (parallel TLC runs, one worker each)."""
    out = {}
    errs = []

    def work(name):
        for attempt in range(2):
            try:
                out[name] = vlib.tlc_generate(MODULE, "%s.gen.%s.cfg" % (MODULE, name), timeout=1500,
                                              java_opts="-Xmx3g")
                return
            except Exception as ex:  # noqa: BLE001
                if attempt == 1:
                    errs.append(ex)

    ths = [threading.Thread(target=work, args=(g[0],)) for g in GEN[chk.tier]]
    for th in ths:
        th.start()
    for th in ths:
        th.join()
    if errs:
        raise errs[0] if isinstance(errs[0], vlib.Inconclusive) else vlib.Inconclusive("generation failed: %r" % errs[0])
    return out


def run_harness(binary, test, cases, tag, timeout=1500, keep=False):
    wd = vlib.scratch("c20" + tag)
    try:
        inp, out, journal = os.path.join(wd, "in"), os.path.join(wd, "out"), os.path.join(wd, "journal")
        with open(inp, "w") as fh:
            for c in cases:
                fh.write(json.dumps(c) + "\n")
        env = {"VERIF_IN": inp, "VERIF_OUT": out, "VERIF_JOURNAL": journal}
        if keep:
            env["VERIF_KEEP_EVENTS"] = "1"
        rc, txt = vlib.run_test(binary, test, env, timeout=timeout)
        if rc != 0 or not os.path.exists(out):
            started = open(journal).read().split() if os.path.exists(journal) else []
            raise vlib.Inconclusive("%s failed (rc %s; last cases started: %s): %s" % (test, rc, started[-8:], txt[-1500:]))
        rows = vlib.read_ndjson(out)
        if len(rows) != len(cases):
            raise vlib.Inconclusive("%s ran %d of %d cases" % (test, len(rows), len(cases)))
        return rows
    finally:
        shutil.rmtree(wd, ignore_errors=True)


def replay_scripts(chk, binary):
    rng = random.Random(chk.seed)
    gens = generate(chk)
    cases = []
    edges = 0
    for name, ticket, n in GEN[chk.tier]:
        res = gens[name]
        chk.add_tlc("gen." + name, res)
        scripts = res.printed
        edges += len(scripts)
        pick = scripts if len(scripts) <= n else rng.sample(scripts, n)
        for s in pick:
            cases.append({"steps": s["steps"], "ticket": ticket, "cap": 2, "id": len(cases), "gen": name})
    rows = []
    batch = 2500
    for i in range(0, len(cases), batch):       # a subprocess per batch: a crash is attributed to the batch's journal
        rows += run_harness(binary, "TestVerifC20Scripts", cases[i:i + batch], "b")
    steps = commits = secrets = delivered = returned = diverged = soft = 0
    covered = set()
    for r in rows:
        c = cases[r["script"]]
        if r.get("lab"):
            raise vlib.Inconclusive("script %d (%s) could not run: %s" % (r["script"], c["gen"], r["lab"]))
        steps += r["steps"]
        commits += r["commits"]
        secrets += r["secrets"]
        delivered += r["delivered"]
        returned += r["returned"]
        pre = ""
        for st in c["steps"][:r["steps"]]:
            pre += json.dumps([st["act"], st["arg"]], sort_keys=True)
            covered.add(hash(pre))
        for v in (r.get("violations") or []):
            chk.violation({"kind": v["kind"], "what": VIOLATION_WHAT.get(v["kind"], v["kind"]) + ": " + v["what"], "mode": "script",
                           "step": v["step"], "case": c, "events": (r.get("events") or [])[-120:]})
        if r.get("soft"):
            soft += 1
            if soft <= 5:
                chk.note("DIVERGENCE (projection only) script %d (%s): %s" % (r["script"], c["gen"], r["soft"][0]))
        if r.get("diverge") and not r.get("violations"):
            diverged += 1
            if diverged <= 10:
                chk.note("DIVERGENCE script %d (%s): %s" % (r["script"], c["gen"], r["diverge"][0]))
    chk.traces(len(rows))
    chk.evaluated(None, steps)
    for r in rows[:3]:
        chk.sample({"script": [[s["act"], s["arg"]] for s in cases[r["script"]]["steps"]], "steps_replayed": r["steps"]})
    chk.parts["script_replay"] = {"edges_of_the_model": edges, "scripts_replayed": len(rows), "steps_compared": steps,
                                  "distinct_edges_covered": len(covered), "write_generations_committed": commits,
                                  "successor_secrets_checked": secrets, "payloads_read": delivered,
                                  "UpdateKeys_returned": returned, "scripts_diverging": diverged, "scripts_with_projection_only_differences": soft}
    if (commits == 0 or returned == 0 or delivered == 0 or steps < 1000) and not chk.violations:
        raise vlib.Inconclusive("vacuous script replay (%d steps, %d commits, %d returns, %d payloads)" % (steps, commits, returned, delivered))
    for k in range(min(len(covered), 4000)):
        chk.distinct.add("edge%d" % k)
    if diverged > max(3, len(rows) // 50) and not chk.violations:
        # the implementation no longer follows the model: the scripts cannot be trusted to reach the states they name.  The
        # free-running part does not depend on the model's predictions and still runs; the verdict is given after it.
        return "model diverges from the implementation on %d of %d scripts (see notes)" % (diverged, len(rows))
    return None


def run(chk):
    run_model(chk)
    binary = vlib.build("root", race=not chk.quick)
    diverging = replay_scripts(chk, binary)
    import checks.c20_free as free
    free.run_free(chk, binary)
    if diverging and not chk.violations:
        raise vlib.Inconclusive(diverging)
    # at most once ACROSS several key updates: arrival scripts of spec/ReplayEpochs.tla (a record replayed after up to three
    # further updates; every read generation is retained, so only the per-epoch windows stand between a duplicate and Read)
    import checks.c06 as c06
    res = vlib.tlc_check("ReplayEpochs", "ReplayEpochs.mc.%s.cfg" % chk.tier, timeout=1500)
    chk.add_tlc("mc.replay-epochs", res)
    deep = vlib.tlc_generate("ReplayEpochs", "ReplayEpochs.gendeep.%s.cfg" % chk.tier, timeout=1500)
    chk.add_tlc("gen.replay-epochs", deep)
    ops = [dict(x, ver="13") for x in deep.printed]
    # the same arrival scripts on a generation that has already carried more than 2^16 records: the 16 sequence-number bits on
    # the wire are completed relative to the highest number accepted IN THE RECORD'S OWN EPOCH, also once a newer epoch exists
    ops += [dict(x, ver="13", poke=70000 + 3 * i) for i, x in enumerate(deep.printed[chk.seed % 3::3])]
    c06.run_scripts(chk, binary, ops, "replays-across-updates", test="TestVerifReplayOps")
    chk.coverage["rule"] = ("(B) one script per explored edge of each generation configuration of PostHandshake13 (two-sided updates with and without "
                            "request, pending ticket, crafted early record, three successive updates), seeded sample replayed; (C) seeded free-running "
                            "sessions; distinct = distinct model edges covered by replayed scripts + distinct session seeds")
    chk.assumptions += ["the vtrace hooks (ph.*, ku.commit, rec.seal, app.deliver) report the events they are placed at; the lab network linearises datagram events",
                        "traffic secrets are read from the ku.commit / ph.rxKeyUpdate hooks (in-package values) and recomputed with HMAC from the standard library",
                        "the crafted record is built in-package with the sender's cipher suite from the independently derived successor secret",
                        "goroutine interleavings of the real endpoints are sampled (seeded), the model is exhaustive within its constants"]


def replay(chk, path):
    facts = json.load(open(path))
    binary = vlib.build("root")
    if facts.get("kind") == "anti-replay":
        import checks.c06 as c06
        c06.replay(chk, path)
    elif facts.get("mode") == "script":
        rows = run_harness(binary, "TestVerifC20Scripts", [dict(facts["case"], id=0)], "r")
        for r in rows:
            for v in (r.get("violations") or []):
                chk.violation(dict(facts, replayed=True, kind=v["kind"]))
    else:
        import checks.c20_free as free
        free.replay_free(chk, binary, facts)
