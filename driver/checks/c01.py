"""C01 handshake agreement: both sides end up holding the same session.
(A) TLC: Agreement on spec/NegotiationRun.tla - both endpoints compute their negotiated outputs from the hellos they saw
    (first / repeated ClientHello, HelloVerifyRequest / HelloRetryRequest round, duplicated and retransmitted hellos, the
    Finished exchange binding the transcript) - for every enumerated configuration pair under the fault budget; variants
    without the Finished check / with a re-selecting server must violate it;
(B) the product "compatible configuration x delivery schedule" on real endpoints:
    (B1) every 1/2-way (thorough: 3-way) configuration pair of spec/Negotiation.tla whose outcome is not 'mustnot', lossless;
    (B2) a configuration set that toggles every dimension x every edge script of spec/Handshake12.tla (deliver / drop /
         duplicate / stale twin / timeout, virtual timers);
    (B3) DTLS 1.3 (with / without HelloRetryRequest, fragmented, CIDs, SRTP, dual-stack) and fragmented DTLS 1.2 under
         fault masks with real timers;
    after both HandshakeContext returned nil each side logs version, suite, ALPN, SRTP profile, both CIDs, the peer chain as
    seen and as presented, ExportKeyingMaterial for 3 labels x 2 lengths; a payload is moved in both directions;
(C) the comparison is decided by TLC on the logged values: spec/TraceAgreement.tla (projection on the negotiated outputs,
    whole trace must be consumed), in addition to the same predicate evaluated by the driver."""
import json
import os
import random
import re
import shutil

import hsreplay
import scen
import vlib
from checks import c11

E_GCM = "TLS_ECDHE_ECDSA_WITH_AES_128_GCM_SHA256"


def script_families():
    """(model variant, name, scenario) : every configuration dimension of the property is toggled at least once."""
    full = scen.ALL["full12"]
    out = []

    def add(variant, name, base, **kw):
        out.append((variant, name, dict(base, **kw)))
    for s in ("TLS_ECDHE_ECDSA_WITH_AES_128_CCM", "TLS_ECDHE_ECDSA_WITH_AES_256_CBC_SHA",
              "TLS_ECDHE_ECDSA_WITH_CHACHA20_POLY1305_SHA256", "TLS_ECDHE_ECDSA_WITH_AES_256_GCM_SHA384"):
        add("full", "suite/" + s, full, suite=s)
    for s in ("TLS_ECDHE_RSA_WITH_AES_128_GCM_SHA256", "TLS_ECDHE_RSA_WITH_AES_256_CBC_SHA"):
        add("full", "rsa/" + s, full, suite=s, auth="rsa")
    add("full", "psk", scen.ALL["psk12"])
    add("full", "psk-ccm8", scen.ALL["psk12"], suite="TLS_PSK_WITH_AES_128_CCM_8")
    add("full", "ecdhepsk", scen.ALL["ecdhepsk12"])
    add("full", "clientauth-verify", scen.ALL["clientauth12"])
    add("full", "clientauth-request", full, clientAuth=1, clientCert=True)
    add("full", "verify-chain", full, verify=True)
    for cc, cs in ((4, 8), (0, 8), (4, 0), (0, 0), (-1, 4), (4, -1)):
        add("full", "cid/%d/%d" % (cc, cs), full, cidC=cc, cidS=cs)
    add("full", "srtp+alpn", full, srtpC=[1, 2], srtpS=[2, 7], alpnC=["a", "b"], alpnS=["b", "c"])
    add("full", "srtp-single", full, srtpC=[7], srtpS=[7, 1])
    for ec, es in ((1, 0), (0, 1), (1, 1), (2, 2), (2, 0), (0, 2)):
        add("full", "ems/%d/%d" % (ec, es), full, emsC=ec, emsS=es)
    for cv in ([23], [24], [29]):
        add("full", "curve/%d" % cv[0], full, curvesC=cv, curvesS=cv)
    add("full", "stores-empty", full, stores=True)
    add("full", "cid+srtp+alpn+ems+psk", scen.ALL["psk12"], cidC=3, cidS=5, srtpC=[1], srtpS=[1], alpnC=["x"], alpnS=["x"],
        emsC=1, emsS=1)
    add("full", "everything-cert", scen.ALL["clientauth12"], cidC=2, cidS=2, srtpC=[2, 1], srtpS=[1, 2], alpnC=["h", "i"],
        alpnS=["i"], emsC=1, stores=True, curvesC=[23, 29], curvesS=[29, 23], suite="TLS_ECDHE_ECDSA_WITH_AES_128_CCM_8")
    nohv = scen.ALL["nohv12"]
    add("nohv", "nohv", nohv)
    add("nohv", "nohv-cid-srtp", nohv, cidC=4, cidS=4, srtpC=[1], srtpS=[1])
    add("nohv", "nohv-psk", nohv, auth="psk", suite="TLS_PSK_WITH_AES_128_GCM_SHA256")
    add("nohv", "nohv-rsa", nohv, auth="rsa", suite="TLS_ECDHE_RSA_WITH_AES_256_GCM_SHA384")
    res = scen.ALL["resume12"]
    add("resume", "resume", res)
    add("resume", "resume-cid-srtp-alpn", res, cidC=4, cidS=8, srtpC=[1, 2], srtpS=[2], alpnC=["a"], alpnS=["a"])
    add("resume", "resume-nohv", res, helloVerify=False)
    add("resume", "resume-ccm", res, suite="TLS_ECDHE_ECDSA_WITH_AES_128_CCM")
    return out


def mask_families():
    v13 = scen.ALL["nohrr13s"]
    out = [("hrr13", scen.ALL["hrr13"]), ("nohrr13", scen.ALL["nohrr13"]), ("frag13", scen.ALL["frag13"]),
           ("hrr13s", scen.ALL["hrr13s"]), ("nohrr13s", v13),
           ("13-cid-srtp", dict(scen.ALL["hrr13s"], cidC=4, cidS=8, srtpC=[1, 2], srtpS=[2])),
           ("13-cid0", dict(v13, cidC=0, cidS=6)),
           # application protocols under DTLS 1.3 (equal lists, overlapping lists, with SRTP and CIDs alongside)
           ("13-alpn", dict(v13, alpnC=["coap"], alpnS=["coap"])),
           ("13-alpn-overlap", dict(scen.ALL["hrr13s"], alpnC=["a", "b"], alpnS=["b", "c"])),
           ("13-alpn-srtp-cid", dict(v13, alpnC=["x", "y"], alpnS=["y"], srtpC=[1], srtpS=[1, 2], cidC=4, cidS=4)),
           ("dual-alpn", dict(v13, cver="dual", sver="dual", alpnC=["q"], alpnS=["q"])),
           ("13-suite-chacha", dict(v13, suite="TLS_CHACHA20_POLY1305_SHA256")),
           ("13-suite-aes256", dict(scen.ALL["hrr13s"], suite="TLS_AES_256_GCM_SHA384")),
           ("13-clientauth", dict(v13, clientAuth=4, clientCert=True, verify=True)),
           # the peer presents its leaf only, the verifier completes the chain from its pool: what is REPORTED is what was presented
           ("13-leafonly-verify", dict(v13, clientAuth=4, clientCert=True, verify=True, leafOnly=True)),
           ("12-leafonly-verify", dict(scen.ALL["clientauth12"], leafOnly=True)),
           ("13-p256", dict(scen.ALL["hrr13s"], curvesC=[23], curvesS=[23])),
           ("dual-dual", dict(v13, cver="dual", sver="dual")),
           ("dual-13", dict(scen.ALL["hrr13s"], cver="dual", sver="13")),
           ("12-dual", dict(scen.ALL["full12"], cver="12", sver="dual")),
           ("dual-12", dict(scen.ALL["full12"], cver="dual", sver="12")),
           ("frag12", scen.ALL["frag12"]),
           ("frag12-clientauth-cid", dict(scen.ALL["clientauth12"], mtu=180, cidC=4, cidS=4)),
           ("frag12-rsa", dict(scen.ALL["full12"], mtu=300, auth="rsa", suite="TLS_ECDHE_RSA_WITH_AES_128_GCM_SHA256")),
           ("frag12-resume", dict(scen.ALL["resume12"], mtu=150))]
    return out


def session_lines(sess):
    lines = []
    for e in sess["est"]:
        lines.append({"ev": "est", "side": e["side"], "ver": e["ver"], "suite": e["suite"], "alpn": e["alpn"], "srtp": e["srtp"],
                      "lcid": e["lcid"], "rcid": e["rcid"], "peer": e["peer"], "present": e["present"],
                      "ekm": "|".join(e.get("ekm") or [])})
    lines.append({"ev": "data", "c2s": bool(sess.get("c2s")), "s2c": bool(sess.get("s2c"))})
    lines.append({"ev": "reset"})
    return lines


def predicate(sess):
    """The Agreement formula evaluated by the driver (cross-check of the TLC verdict)."""
    if len(sess.get("est") or []) != 2:
        return ["established records missing: %s" % sess.get("note")]
    c, s = sess["est"][0], sess["est"][1]
    if c["side"] != "c":
        c, s = s, c
    bad = []
    if c["ver"] != s["ver"] or c["suite"] != s["suite"]:
        bad.append("version/suite differ: c=%s/0x%04x s=%s/0x%04x" % (c["ver"], c["suite"], s["ver"], s["suite"]))
    if c["ekm"] != s["ekm"] or any("error" in x for x in c["ekm"] + s["ekm"]) or len(c["ekm"]) < 6:
        bad.append("exported keying material differs or failed: c=%s s=%s (%s %s)" % (c["ekm"][:2], s["ekm"][:2], c.get("ekmErr"), s.get("ekmErr")))
    if c["lcid"] != s["rcid"] or c["rcid"] != s["lcid"]:
        bad.append("connection IDs not mirrored: c=%s/%s s=%s/%s" % (c["lcid"], c["rcid"], s["lcid"], s["rcid"]))
    if c["alpn"] != s["alpn"] or c["srtp"] != s["srtp"]:
        bad.append("ALPN/SRTP differ: c=%r/%d s=%r/%d" % (c["alpn"], c["srtp"], s["alpn"], s["srtp"]))
    if c["peer"] != s["present"] or s["peer"] != c["present"]:
        bad.append("peer chain differs from what was presented: c sees %s, s presented %s; s sees %s, c presented %s" %
                   (c["peer"], s["present"], s["peer"], c["present"]))
    if not (sess.get("c2s") and sess.get("s2c")):
        bad.append("application data did not flow: c2s=%s s2c=%s" % (sess.get("c2s"), sess.get("s2c")))
    return bad


_LAST_L = re.compile(r"^/\\ l = (\d+)", re.M)


def validate(chk, sessions):
    """(C) TLC decides the comparison; returns indices of rejected sessions with the violated formula."""
    lines, owner = [], []
    for i, (_, sess) in enumerate(sessions):
        for ln in session_lines(sess):
            lines.append(ln)
            owner.append(i)
    rejected = {}
    start = 0
    tv = chk.parts.setdefault("trace_validation", {"events": 0, "tlc_runs": 0, "sessions": 0})
    while start < len(lines):
        chunk = lines[start:start + 45000]
        # do not cut a session in two
        while len(chunk) < len(lines) - start and chunk[-1]["ev"] != "reset":
            chunk.pop()
        res = vlib.tlc_trace("TraceAgreement", "TraceAgreement.cfg", chunk, timeout=900)
        tv["tlc_runs"] += 1
        if res.ok:
            tv["events"] += len(chunk)
            start += len(chunk)
            continue
        ls = _LAST_L.findall(res.out)
        if not res.inv or not ls:
            raise vlib.Inconclusive("trace validation failed to run: %s\n%s" % (res.errors[:3], res.out[-1500:]))
        consumed = int(ls[-1]) - 1                     # the state after consuming this many lines violates the formula
        bad_line = start + consumed - 1
        i = owner[bad_line]
        rejected[i] = res.inv[0]
        tv["events"] += consumed
        nxt = bad_line
        while nxt < len(lines) and lines[nxt]["ev"] != "reset":
            nxt += 1
        start = nxt + 1
        if len(rejected) >= 25:
            break
    tv["sessions"] = len(sessions)
    return rejected


def collect_lossless(chk, binary, rng):
    cfg = "Negotiation.pairs.gen.quick.cfg" if chk.quick else "Negotiation.pairs.gen.thorough.cfg"
    gen = vlib.tlc_generate("Negotiation", cfg, timeout=900)
    chk.add_tlc("pairs", gen)
    recs = [r for r in gen.printed if isinstance(r, dict) and "exp" in r and r["exp"]["ok"] != "mustnot"]
    if not chk.quick:
        low = [r for r in recs if c11.nvaried(r) <= 2]
        hi = [r for r in recs if c11.nvaried(r) == 3]
        recs = low + rng.sample(hi, min(len(hi), 6000))
    cases = [c11.to_case(r, rng, i) for i, r in enumerate(recs)]
    rows = c11.run_cases(binary, cases, session=True)
    out = []
    for case in cases:
        o = rows[case["id"]]
        if o.get("sess"):
            out.append(({"kind": "lossless", "a": case["a"], "case": case}, o["sess"]))
    chk.parts["lossless"] = {"pairs": len(cases), "sessions": len(out)}
    if len(out) < 0.5 * len(cases):
        raise vlib.Inconclusive("only %d of %d compatible configuration pairs produced a session" % (len(out), len(cases)))
    return out


def collect_scripts(chk, binary, rng):
    os.environ["VERIF_ESTABLISHED"] = "1"
    out = []
    scripts = {}
    try:
        for variant in ("full", "nohv", "resume"):
            scripts[variant] = hsreplay.generate(chk, variant)
        jobs = []      # (family name, script line)
        for variant, name, sc in script_families():
            allv = scripts[variant]
            step = (64 if variant == "full" else (16 if variant == "nohv" else 8)) if chk.quick else (8 if variant == "full" else (2 if variant == "nohv" else 1))
            for s in allv[rng.randrange(step)::step]:
                jobs.append((name, {"scen": sc, "steps": s["steps"], "cap": 2, "bkcap": 3}))
        wd = vlib.scratch("c01s")
        try:
            inp, outp = os.path.join(wd, "in"), os.path.join(wd, "out")
            with open(inp, "w") as fh:
                for _, line in jobs:
                    fh.write(json.dumps(line) + "\n")
            rc, txt = vlib.run_test(binary, "TestVerifHsScripts", {"VERIF_IN": inp, "VERIF_OUT": outp}, timeout=2400)
            if rc != 0 or not os.path.exists(outp):
                raise vlib.Inconclusive("script replay harness failed: %s" % txt[-2000:])
            rows = vlib.read_ndjson(outp)
        finally:
            shutil.rmtree(wd, ignore_errors=True)
        per = {}
        for name, _ in jobs:
            per.setdefault(name, {"scripts": 0, "sessions": 0})["scripts"] += 1
        for r in rows[:-1]:
            name, line = jobs[r["script"]]
            if r.get("sess"):
                per[name]["sessions"] += 1
                out.append(({"kind": "script", "family": name, "script": line}, r["sess"]))
        chk.parts["scripts"] = per
        for name, st in per.items():
            if st["sessions"] < 0.8 * st["scripts"]:
                raise vlib.Inconclusive("family %s: only %d of %d scripts ended with both sides established" %
                                        (name, st["sessions"], st["scripts"]))
    finally:
        os.environ.pop("VERIF_ESTABLISHED", None)
    return out


def collect_masks(chk, binary, rng):
    import itertools
    os.environ["VERIF_ESTABLISHED"] = "1"
    out = []
    try:
        cases = []
        for name, sc in mask_families():
            masks = [(list(m), []) for m in itertools.product(range(4), repeat=3)] + [([], list(m)) for m in itertools.product(range(4), repeat=3)]
            if chk.quick:
                masks = rng.sample(masks, 24)
            for _ in range(8 if chk.quick else 120):
                L = rng.randint(3, 8)
                masks.append(([rng.choice([0, 0, 1, 2, 3]) for _ in range(L)], [rng.choice([0, 0, 1, 2, 3]) for _ in range(L)]))
            for cm, sm in masks:
                cases.append({"scen": sc, "variant": name, "cmask": cm, "smask": sm})
        wd = vlib.scratch("c01m")
        try:
            inp, outp = os.path.join(wd, "in"), os.path.join(wd, "out")
            with open(inp, "w") as fh:
                for c in cases:
                    fh.write(json.dumps(c) + "\n")
            rc, txt = vlib.run_test(binary, "TestVerifMasks", {"VERIF_IN": inp, "VERIF_OUT": outp, "VERIF_BUDGET_MS": 5000}, timeout=3000)
            if rc != 0 or not os.path.exists(outp):
                raise vlib.Inconclusive("mask harness failed: " + txt[-2000:])
            rows = vlib.read_ndjson(outp)
        finally:
            shutil.rmtree(wd, ignore_errors=True)
        per = {}
        for r in rows[:-1]:
            c = cases[r["case"]]
            st = per.setdefault(c["variant"], {"cases": 0, "sessions": 0})
            st["cases"] += 1
            if r.get("sess"):
                st["sessions"] += 1
                out.append(({"kind": "mask", "family": c["variant"], "mask": c}, r["sess"]))
        chk.parts["masks"] = per
        for name, st in per.items():
            if st["sessions"] < 0.5 * st["cases"]:
                chk.note("DIVERGENCE mask family %s: only %d of %d runs completed (completion is C02's subject)" % (name, st["sessions"], st["cases"]))
        if len(out) < 0.6 * len(cases):
            raise vlib.Inconclusive("only %d of %d mask runs produced a session" % (len(out), len(cases)))
    finally:
        os.environ.pop("VERIF_ESTABLISHED", None)
    return out


def facts_of(meta, sess, what, formula):
    ests = sess.get("est") or []
    ver = ests[0]["ver"] if ests else "?"
    f = {"kind": "disagreement", "what": what, "formula": formula, "ver": ver, "source": meta["kind"],
         "family": meta.get("family", ""), "session": sess}
    for k in ("case", "script", "mask", "a"):
        if k in meta:
            f[k] = meta[k]
    return f


def run(chk):
    rng = random.Random(chk.seed)
    # (A)
    for cfg in ("quick", "nohv") if chk.quick else ("quick", "nohv", "thorough"):
        res = vlib.tlc_check("NegotiationRun", "NegotiationRun.mc.%s.cfg" % cfg, timeout=1500)
        chk.add_tlc("agreement." + cfg, res)
    vlib.tlc_expect_violation("NegotiationRun", "NegotiationRun.mc.nofinished.cfg", "Agreement", timeout=600)
    vlib.tlc_expect_violation("NegotiationRun", "NegotiationRun.mc.reselect.cfg", "Agreement", timeout=600)
    vlib.tlc_expect_violation("NegotiationRun", "NegotiationRun.mc.vacuity.cfg", "NeverBothDone (some behaviour completes)", timeout=600)
    binary = vlib.build("root")
    import time
    sessions = []
    t0 = time.time()
    sessions += collect_lossless(chk, binary, rng)
    t1 = time.time()
    sessions += collect_scripts(chk, binary, rng)
    t2 = time.time()
    sessions += collect_masks(chk, binary, rng)
    t3 = time.time()
    vlib.log("[c01] lossless %.0fs, scripts %.0fs, masks %.0fs, %d sessions" % (t1 - t0, t2 - t1, t3 - t2, len(sessions)))
    if len(sessions) < 2500:
        raise vlib.Inconclusive("vacuous agreement run: %d sessions" % len(sessions))
    # (C) TLC decides; the driver's predicate must agree with it
    rejected = validate(chk, sessions)
    vlib.log("[c01] trace validation %.0fs" % (time.time() - t3))
    flagged = {}
    for i, (meta, sess) in enumerate(sessions):
        bad = predicate(sess)
        if bad:
            flagged[i] = bad
        key = meta.get("family") or json.dumps(meta.get("a"))
        chk.evaluated(key="%s:%s:%s" % (meta["kind"], key, json.dumps(meta.get("script", meta.get("mask", {})).get("steps", meta.get("mask", "")), sort_keys=True)[:400]))
    chk.traces(len(sessions))
    for i, formula in rejected.items():
        meta, sess = sessions[i]
        what = "; ".join(flagged.get(i) or ["TLC: invariant %s of TraceAgreement rejected the session" % formula])
        chk.violation(facts_of(meta, sess, what, formula))
    missed = [i for i in flagged if i not in rejected]
    if missed and len(rejected) < 25:
        raise vlib.Inconclusive("driver predicate and TLC trace validation disagree on session %s: %s" %
                                (sessions[missed[0]][0], flagged[missed[0]]))
    vers = {}
    for meta, sess in sessions:
        for e in sess.get("est") or []:
            if e["side"] == "c":
                k = "%s/0x%04x/cid=%s/srtp=%d/alpn=%s/resumed=%s" % (e["ver"], e["suite"], e["lcid"] != "-", e["srtp"], e["alpn"] != "",
                                                                    bool(e.get("sessid")) and e["peer"] == "-" and e["suite"] in (0xc02b, 0xc0ac))
                vers[k] = vers.get(k, 0) + 1
    chk.parts["session_shapes"] = {"distinct": len(vers), "top": sorted(vers.items(), key=lambda x: -x[1])[:12]}
    m, s0 = sessions[len(sessions) // 2]
    chk.sample({"source": m["kind"], "family": m.get("family"), "client": {k: s0["est"][0][k] for k in ("ver", "suite", "alpn", "srtp", "lcid", "rcid", "peer")},
                "ekm": s0["est"][0]["ekm"][:2]})
    chk.coverage["rule"] = ("sessions = (TLC-enumerated compatible configuration pairs, lossless) + (configuration set toggling every "
                            "dimension x seeded share of the Handshake12 edge scripts per variant) + (DTLS 1.3 / fragmented / dual-stack "
                            "families x fault masks); distinct = distinct (source, configuration, schedule)")
    chk.assumptions += ["only associations on which both HandshakeContext calls returned nil are judged (completion is C02's subject)",
                        "DTLS 1.3 ALPN is never negotiated by this tree: both sides report the empty protocol, which satisfies equality",
                        "exported keying material is compared as SHA-256 digests of 3 labels x 2 lengths",
                        "presented chain = certificate_list of the Certificate message in the presenter's own handshake transcript"]


def replay(chk, path):
    facts = json.load(open(path))
    binary = vlib.build("root")
    sess = None
    if "case" in facts:
        rows = c11.run_cases(binary, [facts["case"]], session=True)
        sess = rows[facts["case"]["id"]].get("sess")
    else:
        os.environ["VERIF_ESTABLISHED"] = "1"
        wd = vlib.scratch("c01r")
        try:
            inp, out = os.path.join(wd, "in"), os.path.join(wd, "out")
            test = "TestVerifHsScripts" if "script" in facts else "TestVerifMasks"
            open(inp, "w").write(json.dumps(facts.get("script") or facts.get("mask")) + "\n")
            vlib.run_test(binary, test, {"VERIF_IN": inp, "VERIF_OUT": out, "VERIF_BUDGET_MS": 6000})
            for r in vlib.read_ndjson(out)[:-1]:
                sess = r.get("sess") or sess
        finally:
            shutil.rmtree(wd, ignore_errors=True)
            os.environ.pop("VERIF_ESTABLISHED", None)
    if sess:
        bad = predicate(sess)
        if bad:
            chk.violation(dict(facts, replayed=True, what="; ".join(bad), session=sess))
