"""C15 connection IDs, return routability check, peer address migration, datagram routing: spec/CidRrc.tla (M6).
(A) TLC checks AddrChangesOnlyAfterValidatedPath, NoRRCNoMigration, ThreeTimesBudget, OwnCIDOnly,
    PeerCIDOnEveryProtectedRecord, RoutedToOwner (and helpers) on the three sub-machines (path manager with a logical
    clock, endpoint with attacker / deviating key holder, listener table); one deliberately broken configuration per
    formula must be rejected;
(B.i) every edge script of the manager model is replayed in-package on the real rrc.Manager (real clock: one model tick is
    0.65 s, the validity window 1 s): return values and the whole path table are compared step by step, the budget and
    the response-soundness predicates are evaluated on the real outputs with the harness's own accounting;
(B.ii/C) TLC-generated environment scripts of the endpoint model (edge scripts plus simulated long ones) are performed on real
    connections for every client/server CID length {none,0,4,8}^2 x RRC offered or not x DTLS 1.2/1.3 x endpoint under test
    {server, client}; the recorded steps (accept decision, RemoteAddr, every emitted datagram with destination, size, kind,
    cookie, peer CID) are validated by TLC against spec/TraceCidRrc.tla (whole trace consumed); every protected record of
    the whole session is inspected for the receiver's CID;
(B.iii) edge scripts of the listener model are replayed over real loopback UDP sockets on a real listener with two
    connections: which accepted connection receives each datagram is compared with the model."""
import concurrent.futures
import json
import os
import random
import re
import shutil
import sys

sys.path.insert(0, os.path.dirname(os.path.dirname(os.path.abspath(__file__))))
import vlib  # noqa: E402

MODULE = "CidRrc"
TRACE = "TraceCidRrc"

# ---------------------------------------------------------------------------
# configuration files (committed under spec/cfg; regenerate with: python3 driver/checks/c15.py --write-cfgs)

BASE = {
    "Part": '"mgr"', "Addr": '{"a1","a2","a3"}', "Home": '"a1"', "Sizes": "{1,2,3}", "V": 2, "Factor": 3, "Eager": "FALSE",
    "MaxSteps": 7, "MaxClock": 4, "MaxCookie": 3, "MaxBytes": 9, "MaxSeq": 0, "RRC": "TRUE", "OwnCid": "TRUE",
    "PeerCid": "TRUE", "ChSize": 2, "Kinds": '{"app"}', "CidForms": '{"ok"}', "CountAll": "FALSE",
    "SwitchOnCandidate": "FALSE", "RrcWithoutCid": "FALSE", "MigrateWithoutRRC": "FALSE", "AcceptNoCid": "FALSE",
    "Conns": "{1,2}", "RouteStart": '"empty"', "AddrFirst": "FALSE", "Gen": "FALSE",
}
ALLK = '{"app","chal","resp"}'
ALLC = '{"ok","none","other"}'
MGR_F = ["INVARIANT TypeOK", "INVARIANT ThreeTimesBudget", "PROPERTY MgrResponseSound"]
CONN_F = ["INVARIANT TypeOK", "INVARIANT ThreeTimesBudget", "INVARIANT NoRRCNoMigration", "INVARIANT OwnCIDOnly",
          "INVARIANT PeerCIDOnEveryProtectedRecord", "INVARIANT NoAppDataOffPath", "PROPERTY AddrChangesOnlyAfterValidatedPath"]
ROUTE_F = ["INVARIANT RoutedToOwner", "INVARIANT RoutedByAddress"]
CONN = {"Part": '"conn"', "V": 1, "Sizes": "{1,3}", "MaxClock": 3, "MaxCookie": 2, "Kinds": ALLK}
CLASSES = {"TT": ("TRUE", "TRUE", ALLK, ALLC), "TF": ("TRUE", "FALSE", '{"app"}', ALLC),
           "FT": ("FALSE", "TRUE", ALLK, '{"ok","other"}'), "FF": ("FALSE", "FALSE", '{"app"}', '{"ok","other"}')}


def cfg_text(over, formulas, spec="Spec", gen=None, extra=()):
    c = dict(BASE)
    c.update(over)
    lines = ["SPECIFICATION " + spec, "CONSTANTS"] + [" %s = %s" % (k, v) for k, v in c.items()]
    if spec == "Spec":
        lines.append("VIEW view")
    if gen:
        lines.append("ACTION_CONSTRAINT " + gen)
    lines += list(formulas) + list(extra) + ["CHECK_DEADLOCK FALSE"]
    return "\n".join(lines) + "\n"


def all_cfgs():
    out = {}
    for tier, k in (("quick", 0), ("thorough", 2)):
        out["CidRrc.mgr.mc.%s.cfg" % tier] = cfg_text({"MaxSteps": 6 + k}, MGR_F)
        out["CidRrc.mgr.gen.%s.cfg" % tier] = cfg_text(
            {"MaxSteps": 4 + k // 2, "MaxClock": 3, "Sizes": "{1,3}", "Eager": "TRUE", "Gen": "TRUE"}, [], gen="EmitEdge")
        out["CidRrc.conn.mc.mig.%s.cfg" % tier] = cfg_text(dict(CONN, MaxSteps=6 + k // 2, MaxSeq=2), CONN_F)
        out["CidRrc.conn.mc.race.%s.cfg" % tier] = cfg_text(
            dict(CONN, MaxSteps=6 + k, MaxSeq=3, Sizes="{1}", Kinds='{"app","resp"}'), CONN_F)
        out["CidRrc.conn.mc.cid.%s.cfg" % tier] = cfg_text(dict(CONN, MaxSteps=5 + k, MaxSeq=2, Sizes="{1}", CidForms=ALLC), CONN_F)
        out["CidRrc.conn.mc.bigch.%s.cfg" % tier] = cfg_text(dict(CONN, MaxSteps=5 + k, MaxSeq=2, ChSize=4), CONN_F)
        out["CidRrc.conn.mc.norrc.%s.cfg" % tier] = cfg_text(
            dict(CONN, MaxSteps=5 + k, MaxSeq=3, RRC="FALSE", Kinds='{"app"}', CidForms=ALLC), CONN_F)
        out["CidRrc.conn.mc.noown.%s.cfg" % tier] = cfg_text(
            dict(CONN, MaxSteps=5 + k, MaxSeq=2, Sizes="{1}", OwnCid="FALSE", CidForms='{"ok","other"}'), CONN_F)
        out["CidRrc.route.mc.%s.cfg" % tier] = cfg_text({"Part": '"route"', "MaxSteps": 6 + k}, ROUTE_F)
        out["CidRrc.route.gen.%s.cfg" % tier] = cfg_text({"Part": '"route"', "MaxSteps": 4 + k, "Gen": "TRUE"}, [], gen="EmitEdge")
        out["CidRrc.route.mc2.%s.cfg" % tier] = cfg_text({"Part": '"route"', "MaxSteps": 6 + k, "RouteStart": '"two"'}, ROUTE_F)
        out["CidRrc.route.gen2.%s.cfg" % tier] = cfg_text(
            {"Part": '"route"', "MaxSteps": 3 + k, "RouteStart": '"two"', "Gen": "TRUE"}, [], gen="EmitEdge")
        for cls, (own, rrc, kinds, forms) in CLASSES.items():
            o = dict(CONN, MaxSteps=4 + k // 2, MaxSeq=2, MaxClock=2, Sizes="{1}", Eager="TRUE", Gen="TRUE",
                     OwnCid=own, RRC=rrc, Kinds=kinds, CidForms=forms)
            out["CidRrc.conn.gen.%s.%s.cfg" % (cls, tier)] = cfg_text(o, [], gen="EmitEdge")
    for cls, (own, rrc, kinds, forms) in CLASSES.items():
        o = dict(CONN, MaxSteps=10, MaxSeq=4, MaxClock=3, MaxCookie=4, Eager="TRUE", Gen="TRUE",
                 OwnCid=own, RRC=rrc, Kinds=kinds, CidForms=forms)
        out["CidRrc.conn.sim.%s.cfg" % cls] = cfg_text(o, [], gen="EmitLeaf")
    # deliberately broken variants, one per formula
    out["CidRrc.mgr.mc.budget30.cfg"] = cfg_text({"Factor": 30, "MaxSteps": 4}, MGR_F)
    out["CidRrc.conn.mc.budget30.cfg"] = cfg_text(dict(CONN, MaxSteps=5, MaxSeq=2, ChSize=4, Factor=30), CONN_F)
    out["CidRrc.conn.mc.switchoncand.cfg"] = cfg_text(dict(CONN, MaxSteps=5, MaxSeq=2, SwitchOnCandidate="TRUE"), CONN_F)
    out["CidRrc.conn.mc.rrcnocid.cfg"] = cfg_text(dict(CONN, MaxSteps=5, MaxSeq=2, RrcWithoutCid="TRUE"), CONN_F)
    out["CidRrc.conn.mc.migratenorrc.cfg"] = cfg_text(
        dict(CONN, MaxSteps=5, MaxSeq=2, RRC="FALSE", Kinds='{"app"}', MigrateWithoutRRC="TRUE"), CONN_F)
    out["CidRrc.conn.mc.acceptnocid.cfg"] = cfg_text(dict(CONN, MaxSteps=5, MaxSeq=2, CidForms=ALLC, AcceptNoCid="TRUE"), CONN_F)
    out["CidRrc.route.mc.addrfirst.cfg"] = cfg_text({"Part": '"route"', "MaxSteps": 5, "AddrFirst": "TRUE"}, ROUTE_F)
    # trace validation: one pair per (RRC, OwnCid, PeerCid) class
    for rrc in ("T", "F"):
        for own in ("T", "F"):
            for peer in ("T", "F"):
                o = dict(CONN, V=1000, CountAll="TRUE", RRC=rrc + "RUE" if rrc == "T" else "FALSE",
                         OwnCid="TRUE" if own == "T" else "FALSE", PeerCid="TRUE" if peer == "T" else "FALSE")
                o["RRC"] = "TRUE" if rrc == "T" else "FALSE"
                name = "TraceCidRrc.%s%s%s" % (rrc, own, peer)
                out[name + ".batch.cfg"] = cfg_text(dict(o, Strict="TRUE"), [], spec="TSpecG", extra=["POSTCONDITION Accepted"])
                out[name + ".loose.cfg"] = cfg_text(dict(o, Strict="FALSE"), [], spec="TSpecG", extra=["POSTCONDITION Accepted"])
                out[name + ".proj.cfg"] = cfg_text(dict(o, Strict="FALSE"), [f for f in CONN_F if "TypeOK" not in f],
                                                   spec="TSpec", extra=["POSTCONDITION Accepted"])
    return out


def write_cfgs():
    d = os.path.join(vlib.SPEC, "cfg")
    for name, text in all_cfgs().items():
        with open(os.path.join(d, name), "w") as fh:
            fh.write(text)
    print("wrote %d cfg files" % len(all_cfgs()))


# ---------------------------------------------------------------------------
# (B.i) manager scripts

def replay_mgr(chk, binary, scripts):
    wd = vlib.scratch("c15m")
    try:
        inp, out = os.path.join(wd, "in.ndjson"), os.path.join(wd, "out.ndjson")
        with open(inp, "w") as fh:
            for s in scripts:
                fh.write(json.dumps(s) + "\n")
        rc, txt = vlib.run_test(binary, "TestVerifRrcScripts", {"VERIF_IN": inp, "VERIF_OUT": out}, timeout=1500)
        if rc != 0 or not os.path.exists(out):
            raise vlib.Inconclusive("rrc manager harness failed: " + txt[-2000:])
        rows = vlib.read_ndjson(out)
        summary = rows[-1].get("summary")
        if not summary or summary.get("scripts") != len(scripts):
            raise vlib.Inconclusive("rrc manager harness processed %s of %d scripts" % (summary, len(scripts)))
        return rows[:-1], summary
    finally:
        shutil.rmtree(wd, ignore_errors=True)


def part_manager(chk, gens):
    gen = gens["mgr.gen"].result()
    chk.add_tlc("mgr.gen", gen)
    scripts = gen.printed
    if len(scripts) < 2000:
        raise vlib.Inconclusive("too few manager scripts (%d)" % len(scripts))
    # histories of one path validation (no VIEW: every distinct history, not one script per edge), maximal ones only
    focus = vlib.tlc_generate(MODULE, "CidRrc.mgr.genfocus.%s.cfg" % chk.tier, timeout=900)
    chk.add_tlc("mgr.genfocus", focus)
    keyf = lambda g: json.dumps([(x.get("op"), x.get("a"), x.get("n"), x.get("ck"), x.get("en")) for x in g["steps"]])
    allk = {keyf(g) for g in focus.printed}
    prefixes = set()
    for g in focus.printed:
        st = g["steps"]
        for n in range(1, len(st)):
            prefixes.add(json.dumps([(x.get("op"), x.get("a"), x.get("n"), x.get("ck"), x.get("en")) for x in st[:n]]))
    maximal = [g for g in focus.printed if keyf(g) not in prefixes]
    chk.parts["mgr.focus"] = {"histories": len(allk), "maximal": len(maximal)}
    scripts = scripts + maximal
    binary = vlib.build("rrc")
    rows, summary = replay_mgr(chk, binary, scripts)
    late = summary.get("late", 0)
    ndiv = 0
    for r in rows:
        sc = scripts[r["script"]]
        for v in r.get("violations") or []:
            kind = "budget" if ("Reserve" in v or "sentBytes" in v) else "response"
            chk.violation({"kind": "manager-" + kind, "what": v.split(": ", 1)[-1], "script": sc, "part": "manager"})
        for dv in (r.get("diverge") or [])[:1]:
            ndiv += 1
            if ndiv <= 5:
                chk.note("DIVERGENCE model/code (manager script %d): %s" % (r["script"], dv))
    done = summary["scripts"] - late
    chk.traces(done)
    chk.evaluated(n=summary["calls"])
    for s in scripts:
        chk.distinct.add("m" + json.dumps([(x.get("op"), x.get("a"), x.get("n"), x.get("ck"), x.get("en")) for x in s["steps"]]))
    chk.parts["replay.manager"] = dict(summary, model_code_divergences=ndiv)
    chk.sample({"part": "manager", "script": [dict((k, v) for k, v in x.items() if k != "post") for x in scripts[len(scripts) // 2]["steps"]]})
    if late > len(scripts) // 10:
        raise vlib.Inconclusive("%d of %d manager scripts missed their time slots" % (late, len(scripts)))
    if summary.get("accepted", 0) == 0 or summary.get("ticks", 0) == 0:
        raise vlib.Inconclusive("vacuous manager replay: %s" % summary)


# ---------------------------------------------------------------------------
# (B.ii)/(C) connections

def to_script(hist):
    out = []
    for h in hist["steps"]:
        a = h["act"]
        op = a["op"]
        if op == "make":
            r = h["rec"]
            out.append({"op": "make", "kind": r["kind"], "ck": r["ck"], "size": r["size"], "cid": r["cid"]})
        elif op == "deliver":
            out.append({"op": "deliver", "s": a["s"], "src": a["src"]})
        elif op == "garbage":
            out.append({"op": "garbage", "src": a["src"]})
        else:
            out.append({"op": op})
    return out


def features(hist):
    """what a model behaviour exercises (used to deal rare scenarios to every configuration)"""
    f, prev, top, moved = set(), "a1", 0, False
    left = set()       # addresses that were validated (became the peer address through a check) and were left again
    for h in hist["steps"]:
        a, r = h["act"], h["rec"]
        if a["op"] == "deliver" and a.get("acc") and a["src"] in left and a["src"] != prev:
            f.add("return")       # an accepted record from an address validated EARLIER on the connection
        if h["raddr"] != prev:
            f.add("moved")
            if moved:
                f.add("moved-twice")
            if prev != "a1" or moved:
                left.add(prev)
            moved = True
        prev = h["raddr"]
        for e in h["emit"]:
            f.add("emit-" + e["kind"] + ("-after-move" if moved and e["kind"] == "app" else ""))
        if a["op"] == "deliver":
            if r["cid"] != "ok":
                f.add("cid-" + r["cid"])
            elif not a["acc"]:
                f.add("replay")
            else:
                if a["s"] < top:
                    f.add("stale")
                top = max(top, a["s"])
                if r["kind"] == "resp" and not any(e for e in h["emit"]) and h["raddr"] == a["src"] and False:
                    pass
                if r["kind"] == "resp":
                    f.add("resp-accepted-record")
        elif a["op"] in ("tick", "garbage"):
            f.add(a["op"])
    if "resp-accepted-record" in f and "moved" not in f:
        f.add("resp-without-move")
    return tuple(sorted(f))


def useful(script):
    """drop scripts that end with a step that cannot show anything (a trailing make / tick)"""
    return script and script[-1]["op"] in ("deliver", "garbage", "write")


def class_of(cfg):
    """predicted (RRC negotiated, own CID non-empty) of the endpoint under test"""
    cc, cs = cfg["scen"]["cidC"], cfg["scen"]["cidS"]
    neg = cc >= 0 and cs >= 0
    own = cs if cfg["e"] == "s" else cc
    return ("T" if neg and own > 0 else "F") + ("T" if neg and cfg["rrc"] else "F")


def gen_conn_scripts(chk, gens):
    per = {}
    for cls in CLASSES:
        gen = gens["conn.gen." + cls].result()
        chk.add_tlc("conn.gen." + cls, gen)
        sim = gens["conn.sim." + cls].result()
        seen, scripts = set(), []
        extra = []
        if cls == "TT":
            # focused histories (FocusConn): ten steps, an address can be validated, left for another validated one and come
            # back; those with at least two address changes, and a seeded share of the rest
            ret = gens["conn.ret.TT"].result()
            chk.add_tlc("conn.ret.TT", ret)
            rr = random.Random(chk.seed)
            for h in ret.printed:
                ra = [x["raddr"] for x in h["steps"]]
                if sum(1 for i in range(1, len(ra)) if ra[i] != ra[i - 1]) >= 2 or rr.random() < 0.05:
                    extra.append(h)
            if len(extra) < 50:
                raise vlib.Inconclusive("too few return histories (%d)" % len(extra))
        for h in gen.printed + sim.printed + extra:
            s = to_script(h)
            if not useful(s):
                continue
            k = json.dumps(s, sort_keys=True)
            if k not in seen:
                seen.add(k)
                scripts.append((s, features(h)))
        if len(scripts) < 200:
            raise vlib.Inconclusive("too few connection scripts for class %s (%d)" % (cls, len(scripts)))
        per[cls] = scripts
    return per


def configs():
    out = []
    for ver in ("12", "13"):
        for cc in (-1, 0, 4, 8):
            for cs in (-1, 0, 4, 8):
                for rrc in (True, False):
                    for e in ("s", "c"):
                        out.append({"scen": {"ver": ver, "cidC": cc, "cidS": cs}, "rrc": rrc, "e": e,
                                    "name": "dtls%s/cidC=%s/cidS=%s/rrc=%s/E=%s" % (ver, cc, cs, "on" if rrc else "off", e)})
    # one layout where the amplification budget binds: the peer's CID is so long that a path_challenge
    # exceeds three times a small record
    for ver in ("12", "13"):
        for e in ("s", "c"):
            cc, cs = (120, 4) if e == "s" else (4, 120)
            out.append({"scen": {"ver": ver, "cidC": cc, "cidS": cs}, "rrc": True, "e": e,
                        "name": "dtls%s/cidC=%s/cidS=%s/rrc=on/E=%s" % (ver, cc, cs, e)})
    return out


def build_cases(chk, per):
    rng = random.Random(chk.seed)
    cfgs = configs()
    by_class = {}
    for c in cfgs:
        by_class.setdefault(class_of(c), []).append(c)
    cases = []
    k_fast, k_tick = (48, 6) if chk.quick else (250, 24)
    for cls, members in sorted(by_class.items()):
        scripts = per[cls]
        for slow, k in ((False, k_fast), (True, k_tick)):
            # group by what the behaviour exercises, then deal round-robin over the groups so that rare
            # scenarios (migration, late / misdirected responses, stale and replayed records) reach every configuration
            groups = {}
            for s, feat in scripts:
                if ("tick" in feat) == slow:
                    groups.setdefault(feat, []).append(s)
            if not groups:
                continue
            feats = sorted(groups, key=lambda ft: ("moved" not in ft, ft))
            for ft in feats:
                rng.shuffle(groups[ft])
            used = {ft: 0 for ft in feats}
            g = rng.randrange(len(feats))
            for m in members:
                for _ in range(k):
                    ft = feats[g % len(feats)]
                    g += 1
                    sc = groups[ft][used[ft] % len(groups[ft])]
                    used[ft] += 1
                    cases.append(dict(m, script=sc, feat=list(ft), seed=rng.randint(1, 10 ** 9), cls=cls,
                                      complete=rng.random() < 0.6,
                                      fromZero=m["scen"]["ver"] == "13" and rng.random() < 0.5))
    return cases + hs_cases(chk, per, rng)


def hs_cases(chk, per, rng):
    """handshake phase: the peer's k-th datagram (k = 0..5, i.e. every flight of every handshake variant) arrives from a
    foreign address; afterwards a short model script runs and every challenge is answered"""
    out = []
    for ver in ("12", "13"):
        for cc, cs in ((4, 8), (8, 4), (4, 4), (0, 4), (4, 0)):
            for rrc in (True, False):
                for e in ("s", "c"):
                    cfg = {"scen": {"ver": ver, "cidC": cc, "cidS": cs, "helloVerify": ver == "12"}, "rrc": rrc, "e": e,
                           "name": "hs/dtls%s/cidC=%s/cidS=%s/rrc=%s/E=%s" % (ver, cc, cs, "on" if rrc else "off", e)}
                    cls = class_of(cfg)
                    pool = [sc for sc, ft in per[cls] if "tick" not in ft and len(sc) <= 5]
                    for k in range(6):
                        rws = [{str(k): "a2"}]
                        if not chk.quick:
                            rws += [{str(k): "a3", str(k + 1): "a2"}, {str(k): "a2", str(k + 1): "a2"}]
                        for rw in rws:
                            out.append(dict(cfg, script=rng.choice(pool), rewrite=rw, complete=True, hs=True, cls=cls,
                                            feat=["handshake-phase"], seed=rng.randint(1, 10 ** 9)))
    return out


def run_conn(chk, binary, cases, par):
    wd = vlib.scratch("c15c")
    try:
        inp, out = os.path.join(wd, "in.ndjson"), os.path.join(wd, "out.ndjson")
        with open(inp, "w") as fh:
            for c in cases:
                fh.write(json.dumps(c) + "\n")
        rc, txt = vlib.run_test(binary, "TestVerifC15Conn", {"VERIF_IN": inp, "VERIF_OUT": out, "VERIF_PAR": par}, timeout=2400)
        if rc != 0 or not os.path.exists(out):
            inflight = ""
            if os.path.exists(out + ".journal"):
                st = set()
                for line in open(out + ".journal"):
                    w = line.split()
                    (st.add if w[0] == "start" else st.discard)(w[1])
                inflight = " in flight: %s" % sorted(st)[:8]
            raise vlib.Inconclusive("connection harness failed%s: %s" % (inflight, txt[-2000:]))
        rows = vlib.read_ndjson(out)[:-1]
        if len(rows) != len(cases):
            raise vlib.Inconclusive("connection harness ran %d of %d cases" % (len(rows), len(cases)))
        return rows
    finally:
        shutil.rmtree(wd, ignore_errors=True)


def ambiguous(events):
    """a path_response that arrives close to the end of the validity window cannot be judged"""
    t, chal_at, made = 0, {}, []
    for e in events:
        if e["ev"] == "clock":
            t = e["t"]
        elif e["ev"] == "make":
            made.append(e)
        elif e["ev"] == "deliver":
            for em in e["emit"]:
                if em["kind"] == "chal":
                    chal_at[em["ck"]] = t
            m = made[e["s"] - 1]
            if m["kind"] == "resp" and m["ck"] in chal_at and 700 <= t - chal_at[m["ck"]] <= 1200:
                return True
    return False


_L = re.compile(r"\bl = (\d+)")


def tlc_trace_run(cfg, lines):
    return vlib.tlc_trace(TRACE, cfg, lines, timeout=900, java_opts="-Xss16m")


def validate_class(key, sessions, batch="batch"):
    """sessions: list of (case index, events).  Returns (rejected: [(case, formula or None, detail)], diverged: [case], events, runs)"""
    rejected, diverged, nev, runs = [], [], 0, 0
    todo = list(sessions)
    while todo:
        lines, owner = [], []
        for ci, evs in todo:
            lines += evs
            owner += [ci] * len(evs)
        res = tlc_trace_run("TraceCidRrc.%s.%s.cfg" % (key, batch), lines)
        runs += 1
        if res.ok:
            nev += len(lines)
            break
        if not any("Postcondition" in e or "postcondition" in e.lower() for e in res.errors) or res.depth < 1:
            raise vlib.Inconclusive("trace validation (%s) failed to run: %s\n%s" % (key, res.errors[:3], res.out[-1500:]))
        bad = owner[min(res.depth - 1, len(owner) - 1)]
        nev += res.depth
        idx = [c for c, _ in todo].index(bad)
        evs = todo[idx][1]
        alone = tlc_trace_run("TraceCidRrc.%s.proj.cfg" % key, evs)
        runs += 1
        if alone.ok:
            diverged.append((bad, "line %d of its session" % (res.depth - sum(len(e) for _, e in todo[:idx]))))
        elif alone.violated():
            rejected.append((bad, (alone.inv + alone.actprop + ["temporal"])[0]))
        else:
            rejected.append((bad, None))
        # everything before the offending session was accepted; continue behind it
        todo = todo[idx + 1:]
        if len(rejected) + len(diverged) > 40:
            break
    return rejected, diverged, nev, runs


BROKEN = (("mgr.mc.budget30", "ThreeTimesBudget"), ("conn.mc.budget30", "ThreeTimesBudget"),
          ("conn.mc.switchoncand", "AddrChangesOnlyAfterValidatedPath"), ("conn.mc.rrcnocid", "PeerCIDOnEveryProtectedRecord"),
          ("conn.mc.migratenorrc", "NoRRCNoMigration"), ("conn.mc.acceptnocid", "OwnCIDOnly"),
          ("route.mc.addrfirst", "RoutedToOwner"))
MC = ("mgr.mc", "conn.mc.mig", "conn.mc.race", "conn.mc.cid", "conn.mc.bigch", "conn.mc.norrc", "conn.mc.noown", "route.mc",
      "route.mc2")


def start_tlc(chk):
    """all model checking runs in the background while scripts are generated and replayed"""
    t = chk.tier
    mc = concurrent.futures.ThreadPoolExecutor(max_workers=4)
    ge = concurrent.futures.ThreadPoolExecutor(max_workers=6)
    gens, checks, broken = {}, {}, {}
    nsim = 60 if chk.quick else 600
    gens["mgr.gen"] = ge.submit(vlib.tlc_generate, MODULE, "CidRrc.mgr.gen.%s.cfg" % t, timeout=1500)
    for cls in CLASSES:
        gens["conn.gen." + cls] = ge.submit(vlib.tlc_generate, MODULE, "CidRrc.conn.gen.%s.%s.cfg" % (cls, t), timeout=1500)
        gens["conn.sim." + cls] = ge.submit(vlib.tlc_generate, MODULE, "CidRrc.conn.sim.%s.cfg" % cls,
                                            simulate="num=%d" % nsim, depth=12, seed=chk.seed, timeout=900)
    gens["conn.ret.TT"] = ge.submit(vlib.tlc_generate, MODULE, "CidRrc.conn.ret.TT.cfg", timeout=900)
    gens["route.gen"] = ge.submit(vlib.tlc_generate, MODULE, "CidRrc.route.gen.%s.cfg" % t, timeout=1500)
    gens["route.gen2"] = ge.submit(vlib.tlc_generate, MODULE, "CidRrc.route.gen2.%s.cfg" % t, timeout=1500)
    for name in MC:
        checks[name] = mc.submit(vlib.tlc_check, MODULE, "CidRrc.%s.%s.cfg" % (name, t), timeout=1500, workers=4)
    for name, what in BROKEN:
        broken[name] = mc.submit(vlib.tlc_expect_violation, MODULE, "CidRrc.%s.cfg" % name, what, timeout=300, workers=2)
    return gens, checks, broken


def join_tlc(chk, checks, broken):
    for name, f in checks.items():
        chk.add_tlc(name, f.result())
    for name, what in BROKEN:
        res = broken[name].result()
        if what not in res.inv + res.actprop:
            raise vlib.Inconclusive("broken variant %s violated %s instead of %s" % (name, res.inv + res.actprop, what))
    chk.parts["broken_variants_rejected"] = {name: what for name, what in BROKEN}


def part_connections(chk, gens):
    per = gen_conn_scripts(chk, gens)
    cases = build_cases(chk, per)
    binary = vlib.build("root")
    fast = [c for c in cases if not any(x["op"] == "tick" for x in c["script"])]
    slow = [c for c in cases if any(x["op"] == "tick" for x in c["script"])]
    rows = run_conn(chk, binary, fast, max(4, vlib.NCPU)) + run_conn(chk, binary, slow, 64)
    cases = fast + slow
    # the lab is timing sensitive on a busy machine: cases that could not run are retried with little parallelism
    for _ in range(2):
        again = [i for i, r in enumerate(rows) if r.get("lab")]
        if not again:
            break
        for i, r in zip(again, run_conn(chk, binary, [cases[i] for i in again], 4)):
            rows[i] = dict(r, case=i)
    groups, nlab, namb, moved, nsteps, prot = {}, 0, 0, 0, 0, 0
    featcount = {}
    classes_seen = set()
    for i, (c, r) in enumerate(zip(cases, rows)):
        if r.get("lab"):
            nlab += 1
            if nlab <= 3:
                chk.note("connection case could not run (%s): %s" % (c["name"], r["lab"]))
            continue
        cl = r["class"]
        got = ("T" if cl["own"] else "F") + ("T" if cl["rrc"] else "F")
        if got != c["cls"]:
            raise vlib.Inconclusive("configuration %s negotiated class %s, expected %s" % (c["name"], got, c["cls"]))
        chk.evaluated(key="c" + c["name"])
        classes_seen.add((c["name"]))
        for ft in c.get("feat") or []:
            featcount[ft] = featcount.get(ft, 0) + 1
        moved += r["moved"]
        nsteps += r["steps"]
        prot += r["protected"]
        for a in (r.get("anomalies") or [])[:2]:
            chk.note("DIVERGENCE outside C15 (%s): %s" % (c["name"], a))
        for v in (r.get("cidViol") or [])[:1]:
            chk.violation({"kind": "peer-cid-missing", "what": v, "config": c["name"], "case": c, "part": "connection"})
        if ambiguous(r["events"]):
            namb += 1
            continue
        key = ("T" if cl["rrc"] else "F") + ("T" if cl["own"] else "F") + ("T" if cl["peer"] else "F")
        # handshake-phase sessions: the manager model has not seen the handshake, only the formulas are applied
        groups.setdefault((key, "loose" if c.get("hs") else "batch"), []).append((i, r["events"]))
    if nlab > len(cases) // 50:
        raise vlib.Inconclusive("%d of %d connection cases could not run" % (nlab, len(cases)))
    nval, nev, runs, ndiv = 0, 0, 0, 0
    chunks = []
    for key, sess in sorted(groups.items()):          # at most ~40 000 events per TLC run
        cur, size = [], 0
        for item in sess:
            cur.append(item)
            size += len(item[1])
            if size >= 40000:
                chunks.append((key, cur))
                cur, size = [], 0
        if cur:
            chunks.append((key, cur))
    with concurrent.futures.ThreadPoolExecutor(max_workers=8) as ex:
        futs = {ex.submit(validate_class, key[0], sess, key[1]): (key, sess) for key, sess in chunks}
        for f in concurrent.futures.as_completed(futs):
            key, sess = futs[f]
            rejected, diverged, n, k = f.result()
            nev += n
            runs += k
            nval += len(sess) - len(rejected)
            for ci, formula in rejected:
                c = cases[ci]
                if formula is None:
                    chk.note("trace of %s could not be parsed by the trace specification" % c["name"])
                    continue
                chk.violation({"kind": "trace-" + formula, "formula": formula, "config": c["name"], "case": c,
                               "events": rows[ci]["events"], "part": "connection",
                               "what": "TLC: %s is false on the recorded behaviour" % formula})
            for ci, where in diverged:
                ndiv += 1
                if ndiv <= 5:
                    chk.note("DIVERGENCE model/code (connection %s): strict model comparison stuck at %s; events %s" %
                             (cases[ci]["name"], where, json.dumps(rows[ci]["events"])[:3000]))
    chk.traces(nval)
    chk.coverage["evaluations"] += nsteps
    chk.parts["replay.connections"] = {
        "sessions": len(cases), "could_not_run": nlab, "timing_ambiguous_skipped": namb, "validated_by_tlc": nval,
        "events_validated": nev, "tlc_trace_runs": runs, "steps": nsteps, "address_changes_observed": moved,
        "protected_records_inspected_for_cid": prot, "configurations": len(classes_seen), "model_code_divergences": ndiv,
        "sessions_per_model_scenario": featcount}
    ok = [r for r in rows if not r.get("lab") and r["moved"]]
    if ok:
        chk.sample({"part": "connection", "events": ok[0]["events"][:14]})
    if moved == 0 or prot == 0 or nval < len(cases) // 2:
        raise vlib.Inconclusive("vacuous connection replay: %s" % chk.parts["replay.connections"])


def run_simple(binary, test, rows_in, tag, timeout=1200):
    wd = vlib.scratch("c15r")
    try:
        inp, out = os.path.join(wd, "in.ndjson"), os.path.join(wd, "out.ndjson")
        with open(inp, "w") as fh:
            for s in rows_in:
                fh.write(json.dumps(s) + "\n")
        rc, txt = vlib.run_test(binary, test, {"VERIF_IN": inp, "VERIF_OUT": out}, timeout=timeout)
        if rc != 0 or not os.path.exists(out):
            raise vlib.Inconclusive("%s harness failed: %s" % (tag, txt[-2000:]))
        rows = vlib.read_ndjson(out)
        return rows[:-1], rows[-1].get("summary") or {}
    finally:
        shutil.rmtree(wd, ignore_errors=True)


def part_route(chk, gens):
    # (iii-a) every edge of the fresh-listener model on the real UDP listener
    gen = gens["route.gen"].result()
    chk.add_tlc("route.gen", gen)
    scripts = gen.printed
    if len(scripts) < 1000:
        raise vlib.Inconclusive("too few listener scripts (%d)" % len(scripts))
    rows, summary = run_simple(vlib.build("udp"), "TestVerifRouteScripts", scripts, "udp listener")
    if summary.get("scripts") != len(scripts):
        raise vlib.Inconclusive("udp listener harness processed %s of %d scripts" % (summary, len(scripts)))
    ndiv = 0
    for r in rows:
        sc = scripts[r["script"]]
        for v in r.get("violations") or []:
            chk.violation({"kind": "routing", "what": v.split(": ", 1)[-1], "script": sc, "part": "udp-listener"})
        for dv in (r.get("diverge") or [])[:1]:
            ndiv += 1
            if ndiv <= 5:
                chk.note("DIVERGENCE model/code (listener script %d): %s" % (r["script"], dv))
    chk.traces(summary["scripts"] - summary.get("lab", 0))
    chk.evaluated(n=summary.get("arrivals", 0))
    chk.parts["replay.udp_listener"] = dict(summary, model_code_divergences=ndiv)
    if summary.get("routed", 0) == 0 or summary.get("lab", 0) > len(scripts) // 20:
        raise vlib.Inconclusive("vacuous / failing udp listener replay: %s" % summary)
    # (iii-b) two real DTLS connections on a real listener
    gen2 = gens["route.gen2"].result()
    chk.add_tlc("route.gen2", gen2)
    rng = random.Random(chk.seed)
    s2 = [h for h in gen2.printed if any(x["op"] == "arrive" and x["k"] != 0 for x in h["steps"])]
    rng.shuffle(s2)
    n = 240 if chk.quick else 4000
    cases = []
    layouts = [(v, cs, cc) for v in ("12", "13") for cs in (4, 8) for cc in (-1, 0, 4)]
    for i, h in enumerate(s2[:n]):
        v, cs, cc = layouts[i % len(layouts)]
        cases.append({"name": "dtls%s/cidS=%d/cidC=%d" % (v, cs, cc), "ver": v, "cidS": cs, "cidC": cc, "steps": h["steps"]})
    cases = [c for c in cases if c["cidC"] >= 0]       # a client without generator negotiates no CID: nothing to route by
    # the same histories with a listener MTU so small that the ServerHello leaves in several fragments
    for i, h in enumerate(s2[:12 if chk.quick else 120]):
        v, mtu = (("13", 100), ("12", 64))[i % 2]
        cases.append({"name": "dtls%s/cidS=8/cidC=4/mtu%d" % (v, mtu), "ver": v, "cidS": 8, "cidC": 4, "mtu": mtu, "steps": h["steps"]})
    rows, _ = run_simple(vlib.build("root"), "TestVerifC15Listen", cases, "dtls listener")
    if len(rows) != len(cases):
        raise vlib.Inconclusive("dtls listener harness ran %d of %d cases" % (len(rows), len(cases)))
    tot = {"cases": len(cases), "arrivals": 0, "toOwner": 0, "offPath": 0, "lab": 0, "model_code_divergences": 0}
    for c, r in zip(cases, rows):
        if r.get("lab"):
            tot["lab"] += 1
            if tot["lab"] <= 2:
                chk.note("dtls listener case could not run (%s): %s" % (c["name"], r["lab"]))
            continue
        chk.evaluated(key="l" + c["name"])
        for k in ("arrivals", "toOwner", "offPath"):
            tot[k] += r[k]
        for v in (r.get("violations") or [])[:1]:
            chk.violation({"kind": "routing", "what": v.split(": ", 1)[-1], "case": c, "config": c["name"], "part": "dtls-listener",
                           "fragmentedServerHello": bool(c.get("mtu"))})
        if r.get("diverge") and not r.get("violations"):
            tot["model_code_divergences"] += 1
            if tot["model_code_divergences"] <= 3:
                chk.note("DIVERGENCE model/code (dtls listener %s): %s" % (c["name"], r["diverge"][0]))
    chk.traces(len(cases) - tot["lab"])
    chk.parts["replay.dtls_listener"] = tot
    chk.sample({"part": "dtls-listener", "case": {"name": cases[0]["name"],
                "steps": [dict((k, v) for k, v in x.items() if k != "tab") for x in cases[0]["steps"]]}})
    if tot["offPath"] == 0 or tot["lab"] > len(cases) // 10:
        raise vlib.Inconclusive("vacuous / failing dtls listener replay: %s" % tot)


def late_cases():
    return [{"name": "dtls12/cid%d-%d/hv%d" % (cc, cs, hv), "scen": dict(ver="12", cidC=cc, cidS=cs, helloVerify=bool(hv))}
            for cc, cs in ((4, 4), (0, 4), (8, 2), (4, 8)) for hv in (0, 1)]


def run_late(binary, cases):
    wd = vlib.scratch("c15l")
    try:
        inp, out = os.path.join(wd, "in.json"), os.path.join(wd, "out.ndjson")
        json.dump(cases, open(inp, "w"))
        rc, txt = vlib.run_test(binary, "TestVerifC15LateZero", {"VERIF_IN": inp, "VERIF_OUT": out}, timeout=600)
        if rc != 0 or not os.path.exists(out):
            raise vlib.Inconclusive("late-record harness failed: " + txt[-2000:])
        return vlib.read_ndjson(out)
    finally:
        shutil.rmtree(wd, ignore_errors=True)


def part_late(chk):
    """the peer's record numbered 0 of the protected epoch arrives late, from another address, after newer records were
    accepted: it is authentic but not the newest - no return routability check, no address change"""
    cases = late_cases()
    rows = run_late(vlib.build("root"), cases)
    judged = 0
    for c, r in zip(cases, rows):
        if r.get("lab"):
            chk.note("late-record case %s could not run: %s" % (c["name"], r["lab"]))
            continue
        judged += 1
        chk.evaluated(key="late:" + c["name"])
        for v in (r.get("violations") or [])[:1]:
            chk.violation({"kind": "stale-record-starts-check", "what": v, "late_case": c, "part": "late-zero"})
    if judged < len(cases) - 1 and not chk.violations:
        raise vlib.Inconclusive("only %d of %d late-record cases ran" % (judged, len(cases)))
    chk.parts["late_record_zero"] = {"cases": len(cases), "judged": judged}


def run(chk):
    parts = os.environ.get("VERIF_C15_PARTS", "mgr,conn,route").split(",")   # development aid
    gens, checks, broken = start_tlc(chk)
    if "mgr" in parts:
        part_manager(chk, gens)
    if "conn" in parts:
        part_connections(chk, gens)
    if "route" in parts:
        part_route(chk, gens)
    if "conn" in parts:
        part_late(chk)
    join_tlc(chk, checks, broken)
    chk.coverage["rule"] = (
        "manager: one script per explored edge of the manager model; connections: per (own CID, RRC) class the edge scripts of "
        "the endpoint model plus simulated long behaviours, dealt round-robin (seeded shuffle) over all configurations of the "
        "class: {none,0,4,8}^2 CID lengths x RRC offered or not x DTLS 1.2/1.3 x endpoint under test, plus a 120-byte-CID layout "
        "where the budget binds; distinct = distinct manager scripts + configurations")
    chk.assumptions += [
        "one model clock tick is 0.65 s of real time for the manager (window 1 s = two ticks is crossed with >= 0.3 s margin); "
        "scripts that miss a time slot are re-run, never judged",
        "connection traces whose path_response arrives 0.7-1.2 s after the challenge are not judged",
        "the peer's Conn is used in-package as the key holder that crafts records (independence is not needed for inputs)",
        "uint64 saturation arithmetic of the byte counters is outside the model",
    ]


def replay(chk, path):
    facts = json.load(open(path))
    if facts.get("part") == "late-zero":
        chk.evaluated(key="replay")
        for r in run_late(vlib.build("root"), [facts["late_case"]]):
            if r.get("violations"):
                chk.violation(dict(facts, replayed=True), replay=path)
    elif facts.get("part") == "manager":
        rows, _ = replay_mgr(chk, vlib.build("rrc"), [facts["script"]])
        for r in rows:
            for v in r.get("violations") or []:
                chk.violation(dict(facts, replayed=True, what=v))
    elif facts.get("part") == "udp-listener":
        rows, _ = run_simple(vlib.build("udp"), "TestVerifRouteScripts", [facts["script"]], "udp listener")
        for r in rows:
            if r.get("violations"):
                chk.violation(dict(facts, replayed=True))
    elif facts.get("part") == "dtls-listener":
        rows, _ = run_simple(vlib.build("root"), "TestVerifC15Listen", [facts["case"]], "dtls listener")
        for r in rows:
            if r.get("violations"):
                chk.violation(dict(facts, replayed=True))
    elif facts.get("part") == "connection":
        rows = run_conn(chk, vlib.build("root"), [facts["case"]], 1)
        r = rows[0]
        if r.get("lab"):
            raise vlib.Inconclusive("replay could not run: " + r["lab"])
        if r.get("cidViol"):
            chk.violation(dict(facts, replayed=True))
            return
        cl = r["class"]
        key = ("T" if cl["rrc"] else "F") + ("T" if cl["own"] else "F") + ("T" if cl["peer"] else "F")
        rejected, _, _, _ = validate_class(key, [(0, r["events"])])
        for _, formula in rejected:
            if formula:
                chk.violation(dict(facts, replayed=True, formula=formula))


if __name__ == "__main__":
    if "--write-cfgs" in sys.argv:
        write_cfgs()
