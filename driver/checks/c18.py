"""C18 wire codecs round-trip and respect declared lengths.
The TLA+ modules Codec / CodecMsg state encoders and decoders of the wire formats from the RFC grammars; CodecGen enumerates
abstract values.  TLC (A) checks on every enumerated value that the specification's decoder inverts its encoder, consumes
exactly the encoding and that datagram unpacking partitions every datagram and every truncation of it; broken layouts must be
rejected; (B) prints per value the canonical encoding plus systematically derived variants (every strict prefix, trailing bytes,
every byte +-1 which covers every length field +-1) each with the specification decoder's result, and ALL byte strings up to a
bound over an alphabet that hits type / flag / length fields.  The harness offers every byte string to the library codec and
requires: canonical encodings round-trip to the same bytes and value; truncated input is an error; bytes beyond a declared
length never influence the decoded value; every accepted input re-encodes to a fixed point; unpackers partition exactly.
A panic of the library is attributed to the vector in flight (journal) and the batch resumes behind it.
"""
import json
import os
import shutil

import vlib
from checks import c10 as gen10

GEN = "CodecGen"
STAGE1 = ["hdr12", "uhdr", "hshdr", "alert", "ack", "rrc", "inner", "plain12", "hs12", "str", "dgram12", "dgram13"]
STAGE2 = ["msg"]
STAGE3 = ["ext"]
BROKEN = [("hdr12", "hdr_seq_reversed"), ("dgram12", "unpack_overread"), ("dgram12", "unpack_min1"), ("plain12", "plain_ignores_len"), ("hs12", "hs_any_offset")]


def run_batches(chk, binary, test, rows, wd, tag, env=None):
    """run the harness over rows; on a crash record the vector in flight as a violation and resume behind it"""
    inp, out, journal = (os.path.join(wd, tag + s) for s in (".in", ".out", ".journal"))
    with open(inp, "w") as fh:
        for r in rows:
            fh.write(json.dumps(r) + "\n")
    skip, crashes = 0, 0
    while True:
        e = {"VERIF_IN": inp, "VERIF_OUT": out, "VERIF_JOURNAL": journal, "VERIF_SEED": chk.seed, "VERIF_SKIP": skip}
        e.update(env or {})
        rc, txt = vlib.run_test(binary, test, e, timeout=1500)
        if rc == 0:
            break
        inflight = open(journal).read().strip() if os.path.exists(journal) else ""
        if "panic" not in txt or not inflight.isdigit() or crashes >= 25:
            raise vlib.Inconclusive("%s failed (rc %s, in flight %s): %s" % (test, rc, inflight, txt[-2500:]))
        i = int(inflight)
        crashes += 1
        pl = [l for l in txt.splitlines() if l.startswith("panic:")]
        where = [l.strip() for l in txt.splitlines() if "/pkg/protocol/" in l and ".go:" in l]
        chk.violation({"kind": "panic", "codec": rows[i].get("k"), "msg": rows[i].get("msg"), "ctx": rows[i].get("ctx"),
                       "what": (pl[0] if pl else "panic") + (" at " + where[0].split("/pkg/protocol/")[-1].split(" ")[0] if where else ""),
                       "input": rows[i]})
        skip = i + 1
    res = vlib.read_ndjson(out) if os.path.exists(out) else []
    summ = [r for r in res if r.get("summary")]
    if not summ:
        raise vlib.Inconclusive("%s wrote no summary" % test)
    total = {"vectors": summ[-1]["vectors"] + summ[-1].get("skip", 0), "evaluations": sum(s["evaluations"] for s in summ),
             "div": sum(s["div"] for s in summ), "crashes": crashes}
    return [r for r in res if not r.get("summary")], total


def stage(chk, wd, binary, modes, test, tag, name):
    gen = gen10.generate(chk, wd, modes)
    rows = []
    for m in modes:
        rows += gen[m].printed
    res, total = run_batches(chk, binary, test, rows, wd, tag)
    if total["vectors"] != len(rows) or total["evaluations"] < len(rows):
        raise vlib.Inconclusive("C18 %s incomplete: %s of %d" % (name, total, len(rows)))
    ndiv = 0
    for r in res:
        src = rows[r["i"]]
        for w in (r.get("viol") or [])[:3]:
            chk.violation({"kind": "codec", "codec": r.get("k"), "msg": src.get("msg"), "ctx": src.get("ctx"),
                           "class": w.split(" ")[0] if w.split(" ")[0].isupper() else "", "what": w, "input": src, "stage": name})
        for dv in r.get("div") or []:
            ndiv += 1
            if ndiv <= 4:
                chk.note("DIVERGENCE (library stricter than the grammar, outside the property): " + dv[:300])
    chk.traces(len(rows))
    chk.evaluated(n=total["evaluations"])
    for r in rows:
        chk.distinct.add(json.dumps([r.get("k"), r.get("msg"), r.get("ctx"), r.get("enc") or r.get("b") or r.get("d")])[:400])
    chk.parts[name] = dict(total, **{m: len(gen[m].printed) for m in modes})
    return rows


def run(chk):
    wd = vlib.scratch("c18")
    try:
        for mode, broken in BROKEN:
            vlib.tlc_expect_violation(GEN, "%s.%s.broken.%s.cfg" % (GEN, mode, broken), "Consistent", timeout=300, workers=1)
        binary = vlib.build("root")
        rows = stage(chk, wd, binary, STAGE1, "TestVerifC18Stage1", "s1", "stage1")
        stage(chk, wd, binary, STAGE2, "TestVerifC18Stage2", "s2", "stage2")
        stage(chk, wd, binary, STAGE3, "TestVerifC18Stage2", "s3", "stage3")
        r0 = next(r for r in rows if r.get("k") == "uhdr")
        chk.sample({"k": "uhdr", "val": r0["val"], "enc": r0["enc"], "variants": len(r0["variants"])})
        chk.level = "other"
        chk.coverage["explanation"] = (
            "codec oracle: the TLA+ modules Codec/CodecGen state encoders and decoders of the wire formats from the RFC "
            "grammars; TLC enumerates abstract values and byte strings, checks decoder-inverts-encoder and partition properties of "
            "the specification itself and prints, per byte string, the expected decode result; the verdict is the comparison of the "
            "library codecs with these results. No protocol state space is explored, hence not 'model_checking'.")
        chk.coverage["rule"] = ("per codec: all abstract values over boundary field values (CodecGen *Cases) x {canonical, every strict "
                                "prefix, trailing bytes, every byte +-1}; all byte strings up to length 4 (quick) / 5 (thorough) over an "
                                "8-letter alphabet against every small codec and all unpackers; datagrams of up to 2-3 records x every "
                                "truncation x length fields +-1; distinct = distinct byte strings / values offered")
        chk.assumptions += ["stages claimed: see driver/manifest/C18.json; codecs outside the built stages are not covered",
                            "a library decoder that is stricter than the grammar on a well-formed, non-canonical input is reported as "
                            "DIVERGENCE information, not as a violation"]
    finally:
        shutil.rmtree(wd, ignore_errors=True)


def replay(chk, path):
    facts = json.load(open(path))
    wd = vlib.scratch("c18r")
    try:
        binary = vlib.build("root")
        test = {"stage1": "TestVerifC18Stage1", "stage2": "TestVerifC18Stage2", "stage3": "TestVerifC18Stage2"}.get(facts.get("stage"), None)
        if facts.get("kind") == "panic" and test is None:
            test = "TestVerifC18Stage2" if facts["input"].get("k") in ("msg", "ext") else "TestVerifC18Stage1"
        res, _ = run_batches(chk, binary, test, [facts["input"]], wd, "rp")
        for r in res:
            for w in (r.get("viol") or [])[:1]:
                chk.violation(dict(facts, replayed=True, what=w))
    finally:
        shutil.rmtree(wd, ignore_errors=True)
