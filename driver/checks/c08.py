"""C08 robustness: spec/Robustness.tla.
(A) TLC: QueueBounded, EmissionBounded, DroppedKeepsServing, DroppedHasNoEffect, CompletesAnyway over every interleaving of
    handshake progress with up to MaxHostile injected datagrams of each class; the pinned DTLS 1.3 reader (an unframeable datagram
    stops the read loop) must violate DroppedKeepsServing.
(B) every (handshake state, class, target) edge of the model is instantiated with seeded concrete datagrams (several concrete
    generators per model class) and injected into a real endpoint driven to that state, DTLS 1.2 and 1.3, several cipher suites /
    CID layouts; then the genuine peer's traffic continues.  Batches run in a subprocess with a journal so that a panic of the
    library is attributed to the cases in flight, which are then re-run one by one.
Verdicts: panic; no quiescence (deadlock / storm); more than one emission per hostile datagram (+ slack); queue above 100;
    for the classes the property says are DROPPED (unparseable as records, protected records failing authentication): the
    handshake must still complete and application data must flow both ways afterwards."""
import json
import os
import random
import shutil

import vlib

MODULE = "Robustness"
NOCID = {"cidC": -1, "cidS": -1}
# model class -> concrete generators of the harness
CONCRETE = {"unframeable": ["random-unframeable", "random-typed", "random-header", "trunc", "lenfield"],
            "badtype": ["badtype"],
            "forged": ["forged-protected", "bitflip-protected"],
            "future": ["future-epoch"],
            "replay": ["replay"],
            "cleartext": ["hsfrag", "hs-nextseq", "plain-alert", "plain-ccs", "plain-app", "plain-ack", "typever", "plain-benign", "plain-established"],
            "authmalformed": ["auth-malformed", "cbc-padding"]}
MUST_SERVE = {"random-unframeable", "random-typed", "random-header", "trunc", "lenfield", "badtype", "forged-protected",
              "bitflip-protected", "replay", "future-epoch", "plain-benign", "plain-established"}
SCENS = {
    "12": dict(ver="12", helloVerify=True, **NOCID),
    "12cbc": dict(ver="12", helloVerify=False, suite="TLS_ECDHE_ECDSA_WITH_AES_256_CBC_SHA", **NOCID),
    "12pskcbc": dict(ver="12", helloVerify=True, auth="psk", suite="TLS_PSK_WITH_AES_128_CBC_SHA256", **NOCID),
    "12cid": dict(ver="12", helloVerify=True, cidC=4, cidS=8),
    "12ccm": dict(ver="12", helloVerify=True, auth="psk", suite="TLS_PSK_WITH_AES_128_CCM_8", **NOCID),
    "12chacha": dict(ver="12", helloVerify=False, suite="TLS_ECDHE_ECDSA_WITH_CHACHA20_POLY1305_SHA256", **NOCID),
    "12ca": dict(ver="12", helloVerify=True, clientAuth=4, clientCert=True, verify=True, **NOCID),
    "12resume": dict(ver="12", helloVerify=True, resume=True, **NOCID),
    "13": dict(ver="13", helloVerify=True, curvesC=[29], curvesS=[29], **NOCID),
    "13nohrr": dict(ver="13", helloVerify=False, curvesC=[29], curvesS=[29], **NOCID),
    "13cid": dict(ver="13", helloVerify=True, curvesC=[29], curvesS=[29], cidC=4, cidS=4),
    "13chacha": dict(ver="13", helloVerify=True, suite="TLS_CHACHA20_POLY1305_SHA256", curvesC=[29], curvesS=[29], **NOCID),
}


def run_batch(binary, cases, serial=False):
    """Returns (rows by case index, crashed case indices)."""
    wd = vlib.scratch("c08")
    try:
        inp, out, jr = os.path.join(wd, "in"), os.path.join(wd, "out"), os.path.join(wd, "journal")
        with open(inp, "w") as fh:
            for c in cases:
                fh.write(json.dumps(c) + "\n")
        env = {"VERIF_IN": inp, "VERIF_OUT": out, "VERIF_JOURNAL": jr}
        if serial:
            env["VERIF_SERIAL"] = "1"
        rc, txt = vlib.run_test(binary, "TestVerifHostile", env, timeout=1800)
        rows = {}
        if os.path.exists(out):
            for line in open(out):
                try:
                    r = json.loads(line)
                    rows[r["case"]] = r
                except Exception:
                    pass
        if rc == 0:
            return rows, [], ""
        started, done = set(), set()
        if os.path.exists(jr):
            for line in open(jr):
                a, _, b = line.strip().partition(" ")
                (started if a == "start" else done).add(int(b))
        inflight = sorted(started - done)
        return rows, inflight, txt[-3000:]
    finally:
        shutil.rmtree(wd, ignore_errors=True)


def run_all(chk, binary, cases):
    """Runs all cases, isolating crashes: returns rows by index; crashes are reported as violations."""
    rows = {}
    todo = list(range(len(cases)))
    rounds = 0
    while todo and rounds < 6:
        rounds += 1
        got, inflight, txt = run_batch(binary, [dict(cases[i]) for i in todo])
        for k, r in got.items():
            rows[todo[k]] = r
        if not inflight and len(got) == len(todo):
            todo = []
            break
        if not inflight and len(got) < len(todo):
            raise vlib.Inconclusive("hostile harness died without a journal entry: " + txt[-800:])
        suspects = [todo[k] for k in inflight]
        vlib.log("[c08] batch of %d died with %d cases in flight: %s" % (len(todo), len(inflight),
                 ([l for l in txt.splitlines() if l.startswith("panic:") or "fatal error" in l] or [txt[-300:]])[0]))
        for i in suspects:   # one by one: which of the in-flight cases kills the process?
            g1, infl1, txt1 = run_batch(binary, [dict(cases[i])], serial=True)
            if 0 in g1:
                rows[i] = g1[0]
            elif infl1 or txt1:
                panic = [l for l in txt1.splitlines() if l.startswith("panic:") or "fatal error" in l][:1]
                rows[i] = {"case": i, "name": cases[i]["name"], "crash": (panic or ["process died"])[0]}
        todo = [i for i in todo if i not in rows]
    if todo:
        raise vlib.Inconclusive("%d hostile cases could not be executed" % len(todo))
    return rows


def run(chk):
    rng = random.Random(chk.seed)
    t = chk.tier
    edges = []
    for ver in ("12", "13"):
        chk.add_tlc("mc." + ver, vlib.tlc_check(MODULE, "Robustness.%s.mc.%s.cfg" % (ver, t), timeout=900))
        gen = vlib.tlc_generate(MODULE, "Robustness.%s.gen.cfg" % ver, timeout=300)
        chk.add_tlc("gen." + ver, gen)
        for e in gen.printed:
            edges.append((ver, e["at"], e["class"]))
    vlib.tlc_expect_violation(MODULE, "Robustness.13.asis.cfg", "DroppedKeepsServing (1.3 reader stopped by an unframeable datagram)", timeout=300)
    edges = sorted(set(edges))
    if len(edges) < 40:
        raise vlib.Inconclusive("too few (state, class) edges: %d" % len(edges))
    binary = vlib.build("root")
    names = ["12", "13", "12cbc", "12cid", "13cid", "12chacha"] if chk.quick else sorted(SCENS)
    cases = []
    for ver, at, mclass in edges:
        for sn in [n for n in names if SCENS[n]["ver"] == ver]:
            for conc in CONCRETE[mclass]:
                if conc == "cbc-padding" and "cbc" not in sn:
                    continue
                pumps = 30 if at >= 6 else at
                if conc in ("auth-malformed", "cbc-padding", "bitflip-protected", "plain-established") and pumps < 30:
                    continue
                for tgt in "cs":
                    if chk.quick and sn not in ("12", "13") and rng.random() < 0.6:
                        continue
                    # thorough: four independently seeded instances of every (scenario, state, class, role) edge
                    for rep in range(1 if chk.quick else 4):
                        cases.append({"scen": SCENS[sn], "name": "%s/%s/%s/at%d/%s%s" % (sn, mclass, conc, at, tgt, "#%d" % rep if rep else ""),
                                      "pumps": pumps, "target": tgt, "class": conc, "seed": rng.randrange(1 << 30),
                                      "count": 24 if conc in ("auth-malformed", "cbc-padding") else 10, "_m": mclass})
    # floods: queue / memory bounds
    for sn in ("12", "13"):
        for conc in ("future-epoch", "forged-protected", "hsfrag", "random-typed"):
            for pumps in (2, 30):
                cases.append({"scen": SCENS[sn], "name": "%s/flood/%s/at%d/s" % (sn, conc, pumps), "pumps": pumps, "target": "s", "class": conc,
                              "seed": rng.randrange(1 << 30), "count": 400 if chk.quick else 3000, "_m": "flood"})
    rows = run_all(chk, binary, [{k: v for k, v in c.items() if not k.startswith("_")} for c in cases])
    retry = []
    stats = {"cases": len(cases), "injected": 0, "must_serve_cases": 0, "served": 0, "closed_by_cleartext_or_authmalformed": 0, "queue_max": 0,
             "lab": 0, "emission_max_per_case": 0}
    for i, c in enumerate(cases):
        r = rows[i]
        if r.get("crash"):
            chk.violation({"kind": "panic", "class": c["class"], "what": r["crash"], "case": {k: v for k, v in c.items() if not k.startswith("_")}})
            continue
        if r.get("lab"):
            if r["lab"] != "class needs an established session":
                stats["lab"] += 1
            continue
        if r["injected"] == 0:
            continue
        chk.evaluated(key=c["name"])
        chk.traces(1)
        stats["injected"] += r["injected"]
        stats["queue_max"] = max(stats["queue_max"], r["queueMax"])
        stats["emission_max_per_case"] = max(stats["emission_max_per_case"], r["emitted"])
        bad = None
        if not r["quiet"]:
            bad = "no quiescence after the hostile input (deadlock, livelock or emission storm)"
        elif r["emitted"] > 2 * r["injected"] + 8:
            bad = "%d datagrams emitted in answer to %d hostile datagrams" % (r["emitted"], r["injected"])
        elif r["queueMax"] > 100:
            bad = "%d records queued (limit 100)" % r["queueMax"]
        elif c["class"] in MUST_SERVE and c["_m"] != "flood":
            stats["must_serve_cases"] += 1
            if r["completed"] and r["pingPong"]:
                stats["served"] += 1
            else:
                bad = "service did not continue after input the property says is dropped (completed=%s pingPong=%s targetErr=%s)" % (
                    r["completed"], r["pingPong"], r.get("targetErr"))
        elif not r["targetAlive"]:
            stats["closed_by_cleartext_or_authmalformed"] += 1
        if bad:
            retry.append((i, bad))
    # timing-sensitive outcomes are re-run alone, twice, before they count
    for i, bad in retry:
        c = cases[i]
        confirmed = True
        for _ in range(2):
            g, infl, txt = run_batch(binary, [{k: v for k, v in c.items() if not k.startswith("_")}], serial=True)
            r = g.get(0)
            if r is None:
                confirmed = True
                break
            ok = r.get("quiet") and r["emitted"] <= 2 * max(r["injected"], 1) + 8 and r["queueMax"] <= 100 and \
                (c["class"] not in MUST_SERVE or c["_m"] == "flood" or (r["completed"] and r["pingPong"]))
            if ok:
                confirmed = False
                break
        if confirmed:
            chk.violation({"kind": "hostile-input", "class": c["class"], "what": bad, "case": {k: v for k, v in c.items() if not k.startswith("_")}})
        else:
            chk.note("not reproduced on a solitary re-run (load-sensitive): %s: %s" % (c["name"], bad))
    if stats["lab"] > max(3, len(cases) // 50):
        raise vlib.Inconclusive("%d of %d hostile cases could not be executed" % (stats["lab"], len(cases)))
    if stats["must_serve_cases"] < 50 or stats["injected"] < 1000:
        raise vlib.Inconclusive("vacuous: %s" % stats)
    # reassembly limits (in-package)
    fb = vlib.build("fragmentbuffer")
    wd = vlib.scratch("c08fb")
    try:
        out = os.path.join(wd, "out")
        rc, txt = vlib.run_test(fb, "TestVerifFragBounds", {"VERIF_OUT": out, "VERIF_SEED": chk.seed, "VERIF_N": 20000 if chk.quick else 300000}, timeout=900)
        if rc != 0:
            panic = [l for l in txt.splitlines() if l.startswith("panic:")][:1]
            if panic:
                chk.violation({"kind": "panic", "class": "fragment-flood", "what": panic[0], "seed": chk.seed})
            else:
                raise vlib.Inconclusive("fragment bound harness failed: " + txt[-800:])
        else:
            fr = json.load(open(out))
            stats["fragment_flood"] = fr
            chk.evaluated(key="fragflood", n=fr["pushes"])
            if fr["maxFragmentCount"] > fr["limitCount"] or fr["maxBufferSize"] > fr["limitSize"] + 2048 or fr["heapDelta"] > 64 << 20:
                chk.violation({"kind": "reassembly-bound", "what": "reassembly buffer exceeded its limits: %s" % fr, "seed": chk.seed})
    finally:
        shutil.rmtree(wd, ignore_errors=True)
    heap_part(chk, binary)
    listener_part(chk)
    chk.parts["hostile"] = stats
    i = len(cases) // 2
    chk.sample({"case": cases[i]["name"], "result": {k: rows[i].get(k) for k in ("injected", "emitted", "queueMax", "quiet", "targetAlive", "completed", "pingPong", "sample")}})
    chk.sample({"model_edges": edges[:6]})
    chk.coverage["rule"] = ("every (handshake progress, class) Inject edge of Robustness.tla x concrete generators of that class x scenario x target role, "
                            "10-24 seeded datagrams each; floods of 400/3000 datagrams for the bounds; distinct = case name")
    chk.assumptions += ["'every byte string' is approached by model-directed classes x seeded generators, not by coverage-guided fuzzing",
                        "continued service is demanded only where the property demands it: input that cannot be parsed as DTLS records and protected "
                        "records failing authentication; well-formed cleartext records (alerts, handshake fragments, ...) and authenticated malformed "
                        "content may end the handshake / connection with at most one alert (reported as information)",
                        "load-sensitive outcomes are re-run alone twice before they count"]


def heap_rows(binary):
    wd = vlib.scratch("c08h")
    try:
        out = os.path.join(wd, "heap.json")
        rc, txt = vlib.run_test(binary, "TestVerifC08Heap", {"VERIF_OUT": out, "GOMAXPROCS": "4"}, timeout=600)
        if rc != 0 or not os.path.exists(out):
            raise vlib.Inconclusive("heap harness failed: " + txt[-1500:])
        return json.load(open(out))
    finally:
        shutil.rmtree(wd, ignore_errors=True)


def heap_part(chk, binary):
    """Memory RETAINED after hostile datagrams that announce large objects (measured heap, after two collections)."""
    rows = heap_rows(binary)
    over = [r for r in rows if not r.get("lab") and r["growthKB"] > r["limitKB"]]
    if over:   # a measurement: confirm it once more before it counts
        again = {r["name"]: r for r in heap_rows(binary)}
        over = [r for r in over if again.get(r["name"], {}).get("growthKB", 0) > r["limitKB"]]
    for r in rows:
        chk.evaluated(key="heap:" + r["name"])
        if r.get("lab"):
            raise vlib.Inconclusive("heap case %s could not run: %s" % (r["name"], r["lab"]))
    for r in over:
        chk.violation({"kind": "memory-retained", "heap": r,
                       "what": "%d hostile datagrams announcing 16 MiB messages / future epochs left %d KB on the heap (bound %d KB)" %
                               (r["injected"], r["growthKB"], r["limitKB"])})
    chk.parts["heap"] = {r["name"]: r["growthKB"] for r in rows}


def listener_part(chk):
    """(D) the demultiplexer behind dtls.Listen (spec/ListenerBacklog.tla): what first datagrams of unknown addresses make the
    listener keep is bounded by the accept backlog, every entry is reachable, a turned-away address is served later."""
    from checks import c15
    for b in (1, 2):
        chk.add_tlc("listener.mc%d" % b, vlib.tlc_check("ListenerBacklog", "ListenerBacklog.mc%d.cfg" % b, timeout=600))
    vlib.tlc_expect_violation("ListenerBacklog", "ListenerBacklog.entryfirst.cfg", "UnownedBounded (table entry made before the backlog check)",
                              timeout=300)
    scripts = []
    for b in (1, 2):
        gen = vlib.tlc_generate("ListenerBacklog", "ListenerBacklog.gen%d.cfg" % b, timeout=300)
        chk.add_tlc("listener.gen%d" % b, gen)
        scripts += [{"backlog": b, "steps": g["steps"]} for g in gen.printed if g["steps"]]
    if len(scripts) < 300:
        raise vlib.Inconclusive("too few listener backlog scripts (%d)" % len(scripts))
    rows, summ = c15.run_simple(vlib.build("udp"), "TestVerifBacklogScripts", scripts, "listener backlog")
    if summ.get("scripts") != len(scripts) or summ.get("lab", 0) > 3:
        raise vlib.Inconclusive("listener backlog replay incomplete: %s" % summ)
    ndiv = 0
    for r in rows:
        for v in (r.get("violations") or [])[:1]:
            chk.violation({"kind": "listener-backlog", "what": v, "lscript": scripts[r["script"]]})
        if r.get("diverge") and not r.get("violations"):
            ndiv += 1
            if ndiv <= 3:
                chk.note("DIVERGENCE model/code (listener backlog script %d): %s" % (r["script"], r["diverge"][0]))
    if ndiv > len(scripts) // 10 and not chk.violations:
        raise vlib.Inconclusive("listener backlog: %d of %d scripts diverge from the model" % (ndiv, len(scripts)))
    if summ.get("served", 0) < len(scripts) // 2:
        raise vlib.Inconclusive("vacuous listener backlog replay: %s" % summ)
    chk.traces(len(scripts))
    chk.evaluated(n=summ.get("steps", 0))
    for sc in scripts:
        chk.distinct.add("lb%d" % sc["backlog"] + json.dumps([(x["op"], x["a"]) for x in sc["steps"]]))
    chk.parts["listener_backlog"] = dict(summ, diverged=ndiv)


def replay(chk, path):
    facts = json.load(open(path))
    if "lscript" in facts:
        from checks import c15
        chk.evaluated(key="replay")
        rows, _ = c15.run_simple(vlib.build("udp"), "TestVerifBacklogScripts", [facts["lscript"]], "listener backlog")
        if any(r.get("violations") for r in rows):
            chk.violation(dict(facts, replayed=True), replay=path)
        return
    binary = vlib.build("root")
    if facts.get("kind") == "memory-retained":
        chk.evaluated(key="replay")
        for r in heap_rows(binary):
            if r["name"] == facts["heap"]["name"] and r["growthKB"] > r["limitKB"]:
                chk.violation(dict(facts, replayed=True), replay=path)
        return
    chk.evaluated(key="replay")
    chk.evaluated(key=facts["case"]["name"])
    g, infl, txt = run_batch(binary, [facts["case"]], serial=True)
    r = g.get(0)
    c = facts["case"]
    if r is None or not r.get("quiet") or r["emitted"] > 2 * max(r["injected"], 1) + 8 or r["queueMax"] > 100 or \
            (c["class"] in MUST_SERVE and "flood" not in c["name"] and not (r["completed"] and r["pingPong"])):
        chk.violation(dict(facts, replayed=True), replay=path)
