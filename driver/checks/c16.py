"""C16 lifecycle: Close, alerts and deadlines are safe at any moment, on any goroutine.
(A) TLC checks spec/Lifecycle.tla (PlusCal model of conn.go's Close/close, HandshakeContext/handshake, Read, Write, the reader
    and handshaker goroutines, deadlines): deadlock freedom (improper terminal states), NoPanic, CloseIdempotent, ClosedMonotone,
    CloseNotifyAtMostOnce, CloseNotifySentWhenOpen, BlockedCallsGetClosedOrEOF; AllCallsReturn, NoGoroutineLeft, PeerReadEOF,
    DeadlineInterrupts under fairness; broken variants must be rejected.
(B) TLC edge scripts of the same model (user calls, peer datagrams, gate passages) are replayed on real goroutines with gates,
    for DTLS 1.2 and 1.3, both roles, at every handshake position and in the data phase; afterwards: every call returned, return
    values are closed / EOF / deadline errors, close_notify count, the peer's Read, the goroutine dump.
(C) seeded free-running stress of the whole API built with -race; the recorded lifecycle events are validated by TLC against
    spec/TraceLifecycle.tla (whole trace consumed); a race report or a deadlock is a violation."""
import concurrent.futures
import glob
import json
import os
import random
import re
import shutil

import vlib

MODULE = "Lifecycle"
SCENS = {
    "12": {"ver": "12", "helloVerify": True},
    "13": {"ver": "13"},
}
SCENS_THOROUGH = {
    "12psk-cid": {"ver": "12", "auth": "psk", "suite": "TLS_PSK_WITH_AES_128_GCM_SHA256", "cidC": 4, "cidS": 4},
    "12resume": {"ver": "12", "resume": True},
}
BROKEN = [
    ("Lifecycle.broken.nolock.cfg", "CloseIdempotent"),
    ("Lifecycle.broken.closedec.cfg", "NoPanic"),
    ("Lifecycle.broken.pinned.cfg", "CloseNotifyAtMostOnce"),
    ("Lifecycle.broken.nonotify.cfg", "CloseNotifySentWhenOpen"),
    ("Lifecycle.broken.eofnil.cfg", "BlockedCallsGetClosedOrEOF"),
    ("Lifecycle.broken.nodone.cfg", "deadlock"),
]


def cfgs(kind, tier):
    names = sorted(os.path.basename(p) for p in glob.glob(os.path.join(vlib.SPEC, "cfg", "Lifecycle.*.%s.quick.cfg" % kind)))
    if tier != "quick":
        names += sorted(os.path.basename(p) for p in glob.glob(os.path.join(vlib.SPEC, "cfg", "Lifecycle.*.%s.thorough.cfg" % kind)))
    return names


def model_check(chk):
    jobs = [(c, "safe") for c in cfgs("safe", chk.tier)] + [(c, "live") for c in cfgs("live", chk.tier)]
    workers = 2

    def one(job):
        cfg, kind = job
        return cfg, vlib.tlc(MODULE, cfg, workers=workers, timeout=1500 if not chk.quick else 900)
    with concurrent.futures.ThreadPoolExecutor(max_workers=max(2, vlib.NCPU // 3)) as ex:
        for cfg, res in ex.map(one, jobs):
            if not res.ok:
                raise vlib.Inconclusive("model check %s failed: %s\n%s" % (cfg, res.errors[:3], res.out[-2500:]))
            chk.add_tlc(cfg.replace("Lifecycle.", "").replace(".cfg", ""), res)
    vlib.log("[tlc] %d Lifecycle configurations checked" % len(jobs))

    def broken(job):
        cfg, what = job
        return cfg, what, vlib.tlc(MODULE, cfg, workers=2, timeout=300)
    with concurrent.futures.ThreadPoolExecutor(max_workers=6) as ex:
        for cfg, what, res in ex.map(broken, BROKEN):
            dead = any("Deadlock reached" in e for e in res.errors)
            if res.ok or not (res.violated() or dead):
                raise vlib.Inconclusive("vacuity guard: %s was expected to violate %s but did not" % (cfg, what))
            if what == "deadlock" and not dead:
                raise vlib.Inconclusive("vacuity guard: %s should deadlock" % cfg)
            if what != "deadlock" and what not in res.inv:
                raise vlib.Inconclusive("vacuity guard: %s violated %s instead of %s" % (cfg, res.inv, what))
    chk.parts["broken_variants_rejected"] = [b[0] for b in BROKEN]


def generate(chk):
    """Edge scripts per generation cfg: list of (cfgname, phase, script dict)."""
    names = sorted(os.path.basename(p) for p in glob.glob(os.path.join(vlib.SPEC, "cfg", "Lifecycle.*.gen.cfg")))
    if not chk.quick:
        names += sorted(os.path.basename(p) for p in glob.glob(os.path.join(vlib.SPEC, "cfg", "Lifecycle.*.gen.thorough.cfg")))
    out = []

    def one(cfg):
        return cfg, vlib.tlc_generate(MODULE, cfg, timeout=900)
    with concurrent.futures.ThreadPoolExecutor(max_workers=max(2, vlib.NCPU // 4)) as ex:
        for cfg, gen in ex.map(one, names):
            chk.add_tlc("gen." + cfg.split(".")[1], gen)
            seen = {}
            for v in gen.printed:
                if not isinstance(v, dict) or "steps" not in v:
                    continue
                key = json.dumps(v["steps"], sort_keys=True)
                seen[key] = v
            phase = "data" if cfg.split(".")[1].startswith("data") else "hs"
            for key in sorted(seen):
                out.append((cfg.split(".")[1], phase, seen[key]))
    return out


def interesting(steps):
    """A schedule that contains a Close, an alert or a deadline."""
    for s in steps:
        if s["a"] == "call" and s["op"] in ("close", "deadline"):
            return True
        if s["a"] == "dlv" and s["d"] in ("cn", "fatal"):
            return True
    return False


def select(chk, scripts):
    rng = random.Random(chk.seed)
    per_cfg = 22 if chk.quick else 160
    by = {}
    for name, phase, sc in scripts:
        if interesting(sc["steps"]):
            by.setdefault((name, phase), []).append(sc)
    chosen = []
    for (name, phase), lst in sorted(by.items()):
        # longest schedules first (they contain the shorter ones as prefixes), the rest sampled by seed
        lst.sort(key=lambda s: (-len(s["steps"]), json.dumps(s["steps"])))
        head = lst[:per_cfg // 3]
        rest = lst[per_cfg // 3:]
        rng.shuffle(rest)
        for sc in head + rest[:per_cfg - len(head)]:
            chosen.append((name, phase, sc))
    return chosen, {k[0]: len(v) for k, v in by.items()}


def build_cases(chk, chosen):
    scens = dict(SCENS)
    if not chk.quick:
        scens.update(SCENS_THOROUGH)
    rng = random.Random(chk.seed + 1)
    cases = []
    for name, phase, sc in chosen:
        for sname, scen in sorted(scens.items()):
            for eut in ("c", "s"):
                cases.append({"id": len(cases), "scen": scen, "eut": eut, "phase": phase, "mid": 0, "steps": sc["steps"],
                              "seed": rng.randint(1, 10 ** 6), "model": {"cn": sc.get("cn", 0), "closed": bool(sc.get("closed"))},
                              "cfg": name, "sname": sname})
    return cases


def run_batches(chk, binary, test, cases, nbatch, timeout=900, race=False):
    """Runs the cases in nbatch parallel subprocesses; returns (rows, crashes, outputs)."""
    wd = vlib.scratch("c16")
    try:
        batches = [cases[i::nbatch] for i in range(nbatch)]
        batches = [b for b in batches if b]

        def one(args):
            i, batch = args
            inp, out, jr = (os.path.join(wd, "%s.%d" % (x, i)) for x in ("in", "out", "journal"))
            with open(inp, "w") as fh:
                for c in batch:
                    fh.write(json.dumps(c) + "\n")
            env = {"VERIF_IN": inp, "VERIF_OUT": out, "VERIF_JOURNAL": jr}
            if race:
                env["GORACE"] = "halt_on_error=0 history_size=3"
            rc, txt = vlib.run_test(binary, test, env, timeout=timeout)
            rows = vlib.read_ndjson(out) if os.path.exists(out) else []
            inflight = open(jr).read().strip() if os.path.exists(jr) else ""
            return rc, txt, rows, inflight
        rows, crashes, outputs = [], [], []
        with concurrent.futures.ThreadPoolExecutor(max_workers=len(batches)) as ex:
            for rc, txt, brows, inflight in ex.map(one, enumerate(batches)):
                outputs.append(txt)
                complete = bool(brows) and "cases" in brows[-1] and "case" not in brows[-1]
                if complete:
                    rows += brows[:-1]
                    rows.append(brows[-1])
                else:
                    rows += brows
                    crashes.append((rc, inflight, txt))
        return rows, crashes, outputs
    finally:
        shutil.rmtree(wd, ignore_errors=True)


_RACE = re.compile(r"WARNING: DATA RACE.*?={18}", re.S)


def harness_only(report):
    """A race report whose frames are all in harness files is a defect of the harness, not of the library."""
    files = re.findall(r"^\s+(/\S+\.go):\d+", report, re.M)
    lib = [f for f in files if "zz_verif_" not in f and "/harness/" not in f and "/go/src/" not in f and "/golang" not in f
           and "/toolchain" not in f]
    return not lib


def replay_scripts(chk, cases):
    binary = vlib.build("root")
    nb = max(2, min(vlib.NCPU - 2, 14))
    rows, crashes, _ = run_batches(chk, binary, "TestVerifC16Scripts", cases, nb)
    byid = {c["id"]: c for c in cases}
    for rc, inflight, txt in crashes:
        if "panic:" in txt or "fatal error:" in txt:
            cid = int(inflight.split()[0]) if inflight else -1
            c = byid.get(cid, {})
            chk.violation({"kind": "panic", "what": "the test process crashed while replaying a schedule", "output": txt[-3000:],
                           "ver": c.get("sname"), "eut": c.get("eut"), "phase": c.get("phase"), "case": c})
        else:
            raise vlib.Inconclusive("script replay harness failed (rc=%s, case in flight %s): %s" % (rc, inflight, txt[-1500:]))
    runs = [r for r in rows if "case" in r]
    sums = [r for r in rows if "case" not in r]
    lab = sum(1 for r in runs if r.get("lab"))
    if not runs or lab > max(3, len(runs) // 50):
        raise vlib.Inconclusive("script replay incomplete: %d runs, %d lab failures" % (len(runs), lab))
    tot = {}
    for s in sums:
        for k, v in s.items():
            tot[k] = tot.get(k, 0) + v
    ndiv = 0
    for r in runs:
        c = byid[r["case"]]
        key = "%s/%s/%s/%s" % (c["cfg"], c["sname"], c["eut"], json.dumps([(s.get("a"), s.get("p"), s.get("op"), s.get("d"), s.get("g"))
                                                                            for s in c["steps"]]))
        chk.evaluated(key=key)
        for v in r.get("violations") or []:
            facts = {"kind": v["kind"], "what": v["what"], "ver": c["sname"], "eut": c["eut"], "phase": c["phase"], "mid": r.get("mid"),
                     "calls": r.get("calls"), "cn": r.get("cn"), "detail": {k: x for k, x in v.items() if k not in ("kind", "what")},
                     "case": dict(c, mid=r.get("mid", 0))}
            if "race" in v:
                facts["race"] = v["race"]
            chk.violation(facts)
        for d in (r.get("diverge") or [])[:2]:
            ndiv += 1
            if ndiv <= 8:
                chk.note("DIVERGENCE %s/%s eut=%s mid=%s: %s" % (c["cfg"], c["sname"], c["eut"], r.get("mid"), d))
    chk.traces(len(runs))
    if os.environ.get("C16_DEBUG"):
        slow = sorted(runs, key=lambda r: -r.get("ms", 0))[:15]
        for r in slow:
            c = byid[r["case"]]
            vlib.log("[slow] %dms %s %s %s mid=%s missed=%s %s" % (r.get("ms", 0), c["cfg"], c["sname"], c["eut"], r.get("mid"), r.get("gatesMissed"),
                     [(s.get("p"), s.get("op") or s.get("d") or s.get("g")) for s in c["steps"]]))
        vlib.log("[slow] total ms %d" % sum(r.get("ms", 0) for r in runs))
    chk.parts["replay"] = {"schedules": len(cases), "runs": len(runs), "lab_failures": lab, "gates_released": tot.get("gates", 0),
                           "gates_not_reached": tot.get("gatesMissed", 0), "runs_with_close_notify": tot.get("withCloseNotify", 0),
                           "peer_read_eof_checked": tot.get("peerEOF", 0), "divergence_notes": ndiv}
    if not chk.violations and (tot.get("gates", 0) - tot.get("gatesMissed", 0) < 50 or tot.get("withCloseNotify", 0) < 20
                               or tot.get("peerEOF", 0) < 5):
        raise vlib.Inconclusive("vacuous replay: %s" % chk.parts["replay"])
    for r in runs[:3]:
        c = byid[r["case"]]
        chk.sample({"cfg": c["cfg"], "scenario": c["sname"], "endpoint": c["eut"], "position": r.get("mid"),
                    "schedule": [" ".join(str(s[k]) for k in ("a", "p", "op", "d", "g") if s.get(k)) for s in c["steps"]],
                    "returns": r.get("calls"), "close_notify": r.get("cn")})
    return runs


def stress_cases(chk):
    rng = random.Random(chk.seed + 2)
    n = 24 if chk.quick else 160
    scens = list(SCENS.items()) + ([] if chk.quick else list(SCENS_THOROUGH.items()))
    cases = []
    for i in range(n):
        sname, scen = scens[i % len(scens)]
        cases.append({"id": i, "scen": scen, "sname": sname, "seed": rng.randint(1, 10 ** 6), "procs": rng.choice([2, 3, 4]),
                      "ops": rng.choice([40, 80, 150]), "closer": rng.choice(["c", "s", "both", "both", "none"])})
    return cases


def validate_trace(chk, rows, cfg="TraceLifecycle.cfg"):
    lines, owner = [], []
    for r in rows:
        for e in r.get("trace") or []:
            lines.append(e)
            owner.append(r["case"])
    rejected = []
    start = 0
    while start < len(lines):
        chunk = lines[start:]
        res = vlib.tlc_trace("TraceLifecycle", cfg, chunk, timeout=600)
        chk.parts.setdefault("trace_validation", {"events": 0, "tlc_runs": 0})
        if cfg == "TraceLifecycle.cfg":
            chk.parts["trace_validation"]["tlc_runs"] += 1
        if res.ok:
            if cfg == "TraceLifecycle.cfg":
                chk.parts["trace_validation"]["events"] += len(chunk)
                chk.add_tlc("trace.%d" % chk.parts["trace_validation"]["tlc_runs"], res)
            break
        if not any("Postcondition" in e or "postcondition" in e for e in res.errors) or res.depth < 1:
            raise vlib.Inconclusive("trace validation failed to run: %s\n%s" % (res.errors[:3], res.out[-1500:]))
        bad = start + res.depth - 1
        rejected.append((owner[bad], lines[bad], bad))
        nxt = bad
        while nxt < len(lines) and lines[nxt]["ev"] != "end":
            nxt += 1
        start = nxt + 1
        if len(rejected) >= 10:
            break
    return rejected


def stress(chk):
    binary = vlib.build("root", race=True)
    cases = stress_cases(chk)
    rows, crashes, outputs = run_batches(chk, binary, "TestVerifC16Stress", cases, max(2, min(8, vlib.NCPU // 2)), timeout=1500, race=True)
    byid = {c["id"]: c for c in cases}
    nrace = 0
    for txt in outputs:
        for rep in _RACE.findall(txt):
            if harness_only(rep):
                raise vlib.Inconclusive("data race inside the harness itself:\n" + rep[:3000])
            nrace += 1
            fn = re.findall(r"^\s+(github.com/pion/\S+)\(", rep, re.M)
            chk.violation({"kind": "data-race", "what": "Go race detector report during concurrent API use", "functions": sorted(set(fn))[:6],
                           "report": rep[:6000]})
    for rc, inflight, txt in crashes:
        if "WARNING: DATA RACE" in txt and "panic:" not in txt and "fatal error:" not in txt and "test timed out" not in txt:
            continue  # exit code 66 of the race detector, reports handled above
        c = byid.get(int(inflight) if inflight.isdigit() else -1, {})
        if "test timed out" in txt or "panic:" in txt or "fatal error:" in txt:
            chk.violation({"kind": "deadlock" if "test timed out" in txt else "panic", "what": "stress process died", "output": txt[-5000:],
                           "stress": c})
        else:
            raise vlib.Inconclusive("stress harness failed (rc=%s): %s" % (rc, txt[-1500:]))
    runs = [r for r in rows if "case" in r]
    if len(runs) < len(cases) // 2:
        raise vlib.Inconclusive("stress incomplete: %d of %d cases" % (len(runs), len(cases)))
    flagged = set()
    for r in runs:
        c = byid[r["case"]]
        chk.evaluated(key="stress/%s/%d" % (c["sname"], c["seed"]))
        if r.get("lab"):
            continue
        for v in r.get("violations") or []:
            flagged.add(r["case"])
            chk.violation({"kind": v["kind"], "what": v["what"], "ver": c["sname"], "stress": c, "detail": v.get("goroutines", "")[:6000]})
    good = [r for r in runs if not r.get("lab")]
    rejected = validate_trace(chk, good)
    for case_id, ev, idx in rejected:
        if case_id in flagged:
            continue
        c = byid[case_id]
        chk.violation({"kind": "lifecycle-trace", "what": "TLC: the lifecycle projection cannot consume event %s" % json.dumps(ev, sort_keys=True),
                       "ver": c["sname"], "event": ev.get("ev"), "stress": c})
    strict = validate_trace(chk, good, cfg="TraceLifecycle.strict.cfg")
    extra = [x for x in strict if x[0] not in {y[0] for y in rejected}]
    if extra:
        chk.note("DIVERGENCE (outside the property text): in %d stress runs a Read returned data after an earlier Read of the same "
                 "goroutine returned EOF (Read's select picks among closed and decrypted)" % len(extra))
    chk.traces(len(good))
    nev = sum(len(r.get("trace") or []) for r in good)
    chk.parts["stress"] = {"cases": len(cases), "runs": len(good), "api_calls": sum(r.get("ops", 0) for r in good), "trace_events": nev,
                           "race_reports": nrace, "race_detector": True}
    if not chk.violations and (nev < 200 or sum(r.get("ops", 0) for r in good) < 1000):
        raise vlib.Inconclusive("vacuous stress run: %s" % chk.parts["stress"])


def deadlines(chk):
    """Instances of DeadlineInterrupts (Lifecycle.tla, liveness cfgs): a blocked Read / Write must return a timeout-class error
    when its deadline passes - whatever it is blocked behind."""
    nocid = {"cidC": -1, "cidS": -1}
    s12 = dict(ver="12", helloVerify=False, **nocid)
    s13 = dict(ver="13", helloVerify=False, curvesC=[29], curvesS=[29], **nocid)
    cases = []
    for sname, sc in (("12", s12), ("13", s13)):
        for side in "cs":
            for setter in ("specific", "both"):
                for late in (False, True):
                    cases.append({"name": "%s/%s/read/none/%s/%s" % (sname, side, setter, "late" if late else "early"), "scen": sc, "side": side,
                                  "call": "read", "blocker": "none", "deadline": 150, "setter": setter, "late": late})
    for side in "cs":
        for n in (1, 2, 3):
            for setter in ("specific", "both"):
                cases.append({"name": "13/%s/write/keyupdates%d/%s" % (side, n, setter), "scen": s13, "side": side, "call": "write",
                              "blocker": "keyupdates", "updates": n, "deadline": 250, "setter": setter, "late": False})
            cases.append({"name": "13/%s/read/keyupdates%d" % (side, n), "scen": s13, "side": side, "call": "read", "blocker": "keyupdates",
                          "updates": n, "deadline": 250, "setter": "specific", "late": True})
    # the call runs the handshake itself (Read / Write on a fresh connection) against a peer that stays silent
    for sname, sc in (("12", s12), ("13", s13)):
        for side in "cs":
            for call in ("read", "write"):
                cases.append({"name": "%s/%s/%s/handshake" % (sname, side, call), "scen": sc, "side": side, "call": call, "blocker": "handshake",
                              "deadline": 200, "setter": "specific", "late": False})
    wd = vlib.scratch("c16dl")
    try:
        inp, out = os.path.join(wd, "in"), os.path.join(wd, "out")
        with open(inp, "w") as fh:
            for c in cases:
                fh.write(json.dumps(c) + "\n")

        def once(sel):
            with open(inp, "w") as fh:
                for c in sel:
                    fh.write(json.dumps(c) + "\n")
            rc, txt = vlib.run_test(vlib.build("root"), "TestVerifC16Deadlines", {"VERIF_IN": inp, "VERIF_OUT": out}, timeout=600)
            if rc != 0 or not os.path.exists(out):
                raise vlib.Inconclusive("deadline harness failed: " + txt[-1500:])
            return vlib.read_ndjson(out)
        def fine(r):
            # a call that was not blocked at all may simply succeed; a call that does not succeed must fail with a timeout-class
            # error by the time the deadline (plus slack) has passed, and Close must still work afterwards
            return r["returned"] and (r["err"] == "" or r["timeout"]) and r["closeOk"]
        rows = once(cases)
        bad = []
        for c, r in zip(cases, rows):
            if r.get("lab"):
                raise vlib.Inconclusive("deadline case %s could not run: %s" % (c["name"], r["lab"]))
            chk.evaluated(key="deadline:" + c["name"])
            if not fine(r):
                bad.append(c)
        # scheduling-sensitive: a failing case is re-run alone twice before it counts
        confirmed = []
        for c in bad:
            fails = 0
            last = None
            for _ in range(2):
                last = once([c])[0]
                if not fine(last):
                    fails += 1
            if fails == 2:
                confirmed.append((c, last))
        for c, r in confirmed:
            what = ("a %s blocked behind %s did not return a timeout error when its deadline (%d ms) passed: returned=%s after %d ms, "
                    "error %r, Close afterwards ok=%s" % (c["call"], c["blocker"], c["deadline"], r["returned"], r["elapsedMs"], r["err"], r["closeOk"]))
            chk.violation({"kind": "deadline-ignored", "blocker": c["blocker"], "what": what, "deadline_case": c})
        chk.parts["deadlines"] = {"cases": len(cases), "first_pass_failures": len(bad), "confirmed": len(confirmed)}
        chk.traces(len(cases))
    finally:
        shutil.rmtree(wd, ignore_errors=True)


def alert_cases():
    nocid = {"cidC": -1, "cidS": -1}
    cases = []
    for ver, sc in (("12", dict(ver="12", helloVerify=False, **nocid)), ("13", dict(ver="13", helloVerify=False, curvesC=[29], curvesS=[29], **nocid))):
        for side in "cs":
            for unread in (0, 1):
                for al in ("close_notify", "fatal"):
                    cases.append({"name": "%s/%s/unread%d/%s" % (ver, side, unread, al), "scen": sc, "side": side, "unread": unread, "alert": al})
            # a fatal alert closes the connection whatever its description (also one the library has no name for)
            for desc in (10, 47, 80, 86, 112, 115, 255):
                cases.append({"name": "%s/%s/unread0/fatal-desc%d" % (ver, side, desc), "scen": sc, "side": side, "unread": 0, "alert": "fatal", "desc": desc})
    # Close while the handshake is still waiting for a silent peer, also for endpoints configured for both versions (the
    # version negotiation runs before either flight machine exists)
    for name, sc in (("12", dict(ver="12", helloVerify=True, **nocid)), ("13", dict(ver="13", helloVerify=True, curvesC=[29], curvesS=[29], **nocid)),
                     ("dual", dict(ver="13", cver="dual", sver="dual", helloVerify=True, curvesC=[29], curvesS=[29], **nocid))):
        for side in "cs":
            cases.append({"name": "%s/%s/close-in-handshake" % (name, side), "scen": sc, "side": side, "unread": 0, "alert": "close-in-handshake"})
    return cases


def run_alerts(cases):
    wd = vlib.scratch("c16al")
    try:
        inp, out = os.path.join(wd, "in"), os.path.join(wd, "out")
        json.dump(cases, open(inp, "w"))
        rc, txt = vlib.run_test(vlib.build("root"), "TestVerifC16Alerts", {"VERIF_IN": inp, "VERIF_OUT": out}, timeout=600)
        if rc != 0 or not os.path.exists(out):
            raise vlib.Inconclusive("alert harness failed: " + txt[-1500:])
        return vlib.read_ndjson(out)
    finally:
        shutil.rmtree(wd, ignore_errors=True)


def alerts(chk):
    """The peer's close_notify / fatal alert arrives while the application is not in Read and at most one datagram is unread:
    the connection closes all the same (Write fails, Read drains and ends, Close returns)."""
    cases = alert_cases()
    rows = run_alerts(cases)
    bad = []
    for c, r in zip(cases, rows):
        if r.get("lab"):
            raise vlib.Inconclusive("alert case %s could not run: %s" % (c["name"], r["lab"]))
        chk.evaluated(key="alert:" + c["name"])
        chk.distinct.add("alert:" + c["name"])
        if r.get("violations"):
            bad.append(c)
    confirmed = []
    for c in bad:   # timing-sensitive: a failing case is run alone twice more before it counts
        rr = [run_alerts([c])[0] for _ in range(2)]
        if all(x.get("violations") for x in rr):
            confirmed.append((c, rr[-1]))
    for c, r in confirmed:
        chk.violation({"kind": "alert-does-not-close", "what": r["violations"][0], "alert_case": c})
    chk.parts["alerts"] = {"cases": len(cases), "first_pass_failures": len(bad), "confirmed": len(confirmed)}
    chk.traces(len(cases))


def run(chk):
    import time
    t0 = time.time()
    with concurrent.futures.ThreadPoolExecutor(max_workers=2) as ex:   # model checking and script generation side by side
        f1 = ex.submit(model_check, chk)
        f2 = ex.submit(generate, chk)
        f1.result()
        scripts = f2.result()
    vlib.log("[c16] model check and generation done at %.0fs" % (time.time() - t0))
    chosen, avail = select(chk, scripts)
    if len(chosen) < 60:
        raise vlib.Inconclusive("too few schedules generated: %d" % len(chosen))
    chk.parts["schedules_available"] = avail
    cases = build_cases(chk, chosen)
    replay_scripts(chk, cases)
    vlib.log("[c16] replay done at %.0fs" % (time.time() - t0))
    stress(chk)
    vlib.log("[c16] stress done at %.0fs" % (time.time() - t0))
    deadlines(chk)
    alerts(chk)
    chk.coverage["rule"] = ("schedules = distinct controllable-action sequences (user calls, peer datagrams, gate passages) of the TLC edge "
                            "scripts of 13 Lifecycle generation configs that contain a Close / close_notify / fatal alert / deadline, longest "
                            "first then sampled by seed; each is replayed for DTLS 1.2 and 1.3, client and server as endpoint under test, and "
                            "for handshake-phase schedules at every datagram position of the real handshake; plus seeded stress runs under "
                            "-race; distinct = (config, scenario, endpoint, schedule) and stress seeds")
    chk.coverage["explanation"] = ("level_note: deadlock freedom, close_notify counts, return classes and termination are decided by TLC on "
                                   "the model and bound to the code by gated replay and trace validation; data-race freedom is observed by the "
                                   "Go race detector on these model-driven schedules and stress runs (TLA+ has no memory model)")
    chk.assumptions += [
        "the transport's WriteTo eventually returns (Close writes close_notify with a background context)",
        "goroutine interleavings between two controlled actions are sampled (seeded pauses), the model is exhaustive",
        "a deadline is required to interrupt calls blocked in the data phase and HandshakeContext through its context; Read/Write "
        "blocked inside their implicit Handshake() use a background context (recorded as scope limit)",
        "hang detection uses a 12 s bound after Close / alert before a call counts as not returning",
    ]


def replay(chk, path):
    facts = json.load(open(path))
    if "alert_case" in facts:
        chk.evaluated(key="replay")
        if run_alerts([facts["alert_case"]])[0].get("violations"):
            chk.violation(dict(facts, replayed=True), replay=path)
        return
    if "deadline_case" in facts:
        wd = vlib.scratch("c16dlr")
        try:
            inp, out = os.path.join(wd, "in"), os.path.join(wd, "out")
            open(inp, "w").write(json.dumps(facts["deadline_case"]) + "\n")
            vlib.run_test(vlib.build("root"), "TestVerifC16Deadlines", {"VERIF_IN": inp, "VERIF_OUT": out}, timeout=300)
            chk.evaluated(key="replay")
            chk.evaluated(key=facts["deadline_case"]["name"])
            for r in vlib.read_ndjson(out):
                if not (r["returned"] and (r["err"] == "" or r["timeout"]) and r["closeOk"]):
                    chk.violation(dict(facts, replayed=True), replay=path)
        finally:
            shutil.rmtree(wd, ignore_errors=True)
        return
    if "case" in facts and facts["case"]:
        c = dict(facts["case"], id=0)
        rows, crashes, _ = run_batches(chk, vlib.build("root"), "TestVerifC16Scripts", [c], 1)
        for r in rows:
            for v in r.get("violations") or []:
                chk.violation(dict(facts, replayed=True, what=v["what"]))
        if crashes:
            chk.violation(dict(facts, replayed=True))
    elif "stress" in facts and facts["stress"]:
        c = dict(facts["stress"], id=0)
        rows, crashes, outputs = run_batches(chk, vlib.build("root", race=True), "TestVerifC16Stress", [c], 1, race=True)
        bad = any(r.get("violations") for r in rows) or any("DATA RACE" in t for t in outputs) or crashes
        if not bad:
            bad = bool(validate_trace(chk, [r for r in rows if "case" in r]))
        if bad:
            chk.violation(dict(facts, replayed=True))
    else:
        raise vlib.Inconclusive("replay file without a case")
