"""C06 anti-replay: spec/ReplayWindow.tla.
(A) TLC: AtMostOnce / WithinWindowDelivered over every arrival sequence (with repetition) for each window size;
(B) every generated arrival sequence is replayed on a fresh live connection configured with that window
    (DTLS 1.2 PSK, and a DTLS 1.3 share), long random sequences for the default window 64 come from tlc -simulate;
    the predicates are evaluated on what Read really returned, the model's delivery list is compared as well."""
import json
import os
import shutil

import vlib

MODULE = "ReplayWindow"


def run_scripts(chk, binary, scripts, tag, test="TestVerifReplayScripts"):
    wd = vlib.scratch("c06")
    try:
        inp, out = os.path.join(wd, "in.ndjson"), os.path.join(wd, "out.ndjson")
        with open(inp, "w") as fh:
            for s in scripts:
                fh.write(json.dumps(s) + "\n")
        rc, txt = vlib.run_test(binary, test, {"VERIF_IN": inp, "VERIF_OUT": out}, timeout=3000)
        if rc != 0 or not os.path.exists(out):
            raise vlib.Inconclusive("replay-window harness failed (%s): %s" % (tag, txt[-2000:]))
        rows = vlib.read_ndjson(out)
        summary = rows[-1]
        if summary["scripts"] != len(scripts):
            raise vlib.Inconclusive("harness ran %s of %d scripts" % (summary, len(scripts)))
        if summary["lab"] > max(3, len(scripts) // 200):
            raise vlib.Inconclusive("%d scripts could not be executed by the lab (%s)" % (summary["lab"], rows[0]))
        chk.traces(summary["scripts"] - summary["lab"])
        chk.evaluated(n=summary["scripts"])
        ndiv = 0
        for r in rows[:-1]:
            sc = scripts[r["script"]]
            for v in r.get("violations", []):
                chk.violation({"kind": "anti-replay", "what": v, "script": sc, "got": r.get("got")})
            for dv in r.get("diverge", []):
                ndiv += 1
                if not r.get("violations") and ndiv <= 3:
                    chk.note("DIVERGENCE model/code (%s script %d): %s" % (tag, r["script"], dv))
        chk.parts["replay." + tag] = {"scripts": summary["scripts"], "deliveries": summary["deliveries"],
                                      "lab_skipped": summary["lab"], "model_code_divergences": ndiv}
        if summary["deliveries"] == 0:
            raise vlib.Inconclusive("vacuous: nothing was delivered")
    finally:
        shutil.rmtree(wd, ignore_errors=True)


def run(chk):
    t = chk.tier
    res = vlib.tlc_check(MODULE, "ReplayWindow.mc.%s.cfg" % t, timeout=1500)
    chk.add_tlc("mc", res)
    vlib.tlc_expect_violation(MODULE, "ReplayWindow.mc.strict.cfg", "WithinWindowDelivered", timeout=300)
    binary = vlib.build("root")
    gen = vlib.tlc_generate(MODULE, "ReplayWindow.gen.%s.cfg" % t, timeout=1500)
    chk.add_tlc("gen", gen)
    scripts = gen.printed
    if len(scripts) < 1000:
        raise vlib.Inconclusive("too few scripts")
    for s in scripts:
        chk.distinct.add("%d:%s" % (s["w"], s["arrivals"]))
    run_scripts(chk, binary, scripts, "dtls12")
    step = 10 if chk.quick else 4
    s13 = [dict(s, ver="13") for s in scripts[chk.seed % step::step]]
    run_scripts(chk, binary, s13, "dtls13")
    n = 150 if chk.quick else 1500
    sim = vlib.tlc_generate(MODULE, "ReplayWindow.sim.cfg", simulate="num=%d" % n, depth=120, seed=chk.seed, timeout=900)
    long = sim.printed
    if len(long) < n // 2:
        raise vlib.Inconclusive("simulation produced %d behaviours" % len(long))
    for s in long:
        chk.distinct.add("%d:%s" % (s["w"], s["arrivals"]))
    run_scripts(chk, binary, long, "default-window-long")
    # every CONFIGURED window size, not only 64: sizes around the 64-bit words of the detector's bitmap (the detector lost
    # bits for 33..63, 97..127, ... before the "fix:" commit that rounds the window up), random long sequences per size and
    # every short sequence over two clusters of records that straddle the far edge of the effective window
    vlib.tlc_expect_violation(MODULE, "ReplayWindow.mc.prefix.cfg", "AtMostOnce", timeout=300)
    for cfg in ("ReplayWindow.mcedge64.cfg", "ReplayWindow.mcedge128.cfg"):
        chk.add_tlc(cfg.split(".")[1], vlib.tlc_check(MODULE, cfg, timeout=900))
    simw = vlib.tlc_generate(MODULE, "ReplayWindow.simw.cfg", simulate="num=%d" % (n * 2), depth=160, seed=chk.seed + 1, timeout=900)
    if len(simw.printed) < n or len(set(s["w"] for s in simw.printed)) < 12:
        raise vlib.Inconclusive("window-size simulation produced %d behaviours" % len(simw.printed))
    for s in simw.printed:
        chk.distinct.add("%d:%s" % (s["w"], s["arrivals"]))
    run_scripts(chk, binary, simw.printed, "window-sizes-long")
    edge = []
    for cfg in ("ReplayWindow.genedge64.cfg", "ReplayWindow.genedge128.cfg"):
        g = vlib.tlc_generate(MODULE, cfg, timeout=900)
        chk.add_tlc(cfg.split(".")[1], g)
        edge += g.printed
    if len(edge) < 5000:
        raise vlib.Inconclusive("too few window-edge scripts")
    if chk.quick:
        edge = edge[chk.seed % 3::3]
    for s in edge:
        chk.distinct.add("%d:%s" % (s["w"], s["arrivals"]))
    run_scripts(chk, binary, edge, "window-edge")
    # replays across a DTLS 1.3 key update (spec/ReplayEpochs.tla) and across truncated-number boundaries
    res = vlib.tlc_check("ReplayEpochs", "ReplayEpochs.mc.%s.cfg" % t, timeout=1500)
    chk.add_tlc("mc.epochs", res)
    vlib.tlc_expect_violation("ReplayEpochs", "ReplayEpochs.mc.wipe.cfg", "AtMostOnce", timeout=300)
    gen2 = vlib.tlc_generate("ReplayEpochs", "ReplayEpochs.gen.%s.cfg" % t, timeout=1500)
    chk.add_tlc("gen.epochs", gen2)
    # deeper in epochs (three key updates, fewer records): a record replayed after SEVERAL further key updates
    gen3 = vlib.tlc_generate("ReplayEpochs", "ReplayEpochs.gendeep.%s.cfg" % t, timeout=1500)
    chk.add_tlc("gen.epochs.deep", gen3)
    ops = [dict(s, ver="13") for s in gen2.printed] + [dict(s, ver="13") for s in gen3.printed]
    if len(ops) > 60000:
        import random
        ops = random.Random(chk.seed).sample(ops, 60000)
    for s in scripts[chk.seed % 25::25] if chk.quick else scripts[chk.seed % 10::10]:
        o = [{"op": "write", "rec": i} for i in range(1, max(s["arrivals"]) + 1)] + [{"op": "deliver", "rec": a} for a in s["arrivals"]]
        ops.append({"w": s["w"], "ops": o, "delivered": s["delivered"], "ver": "13", "poke": 65536 - 3})
        ops.append({"w": s["w"], "ops": o, "delivered": s["delivered"], "ver": "12", "poke": (1 << 32) - 2})
        ops.append({"w": s["w"], "ops": o, "delivered": s["delivered"], "ver": "12", "poke": (1 << 40) - 3})
    for s in ops:
        chk.distinct.add("ops:%d:%s:%s" % (s["w"], s.get("poke", 0), s["ops"]))
    run_scripts(chk, binary, ops, "epochs-and-boundaries", test="TestVerifReplayOps")
    chk.sample({"ops": ops[len(ops) // 2]})
    chk.sample(scripts[len(scripts) // 3])
    chk.sample({"long": long[0]})
    chk.coverage["rule"] = ("every arrival sequence of length L over N records for each window (exhaustive, TLC); "
                            "plus seeded random sequences of length 110 over 70 records for window 64, of length 150 over 230 records for 16 "
                            "window sizes between 5 and 200, and every sequence of length 5 over two record clusters straddling the far edge of "
                            "the effective window for 9 window sizes; distinct = distinct (window, sequence)")
    chk.assumptions += ["records below the first application record were accepted in order (lossless handshake)",
                        "replay across export/import is outside this property's quantifier (the window is not serialised)"]


def replay(chk, path):
    facts = json.load(open(path))
    test = "TestVerifReplayOps" if "ops" in facts["script"] else "TestVerifReplayScripts"
    run_scripts(chk, vlib.build("root"), [facts["script"]], "replay", test=test)
