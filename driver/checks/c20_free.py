"""C20 part (C): free-running sessions, harness predicates and TLC trace validation (spec/TracePostHandshake13.tla)."""
import json
import random
import re

import vlib
from checks.c20 import TRACE, VIOLATION_WHAT, run_harness

SUITES = ["", "TLS_AES_256_GCM_SHA384", "TLS_CHACHA20_POLY1305_SHA256"]


def build_cases(chk):
    rng = random.Random(chk.seed * 7919 + 13)
    n = 36 if chk.quick else 220
    cases = []
    for i in range(n):
        nu = rng.choice([1, 2, 3, 4])
        cases.append({
            "id": i, "seed": rng.randint(1, 10 ** 9), "intervalMs": rng.choice([10, 15, 20]),
            "loss": rng.choice([0, 5, 10, 20, 30]), "dup": rng.choice([0, 5, 15]), "delay": rng.choice([0, 10, 25]),
            "writers": rng.choice([2, 3]), "writes": rng.choice([8, 15, 25]),
            "updC": [rng.random() < 0.5 for _ in range(rng.choice([0, 1, nu]))],
            "updS": [rng.random() < 0.5 for _ in range(rng.choice([0, 1, nu]))],
            "callers": rng.choice([1, 1, 2]), "craft": rng.choice(["", "", "c", "s"]),
            "suite": SUITES[i % len(SUITES)] if i % 4 == 3 else "",
        })
        if not cases[-1]["updC"] and not cases[-1]["updS"]:
            cases[-1]["updC"] = [True]
    # asymmetric histories: one side has updated 6-8 times before the other updates for the first time, while it keeps writing
    # (nothing is lost or duplicated, datagrams are only delayed: every payload must be read)
    for j in range(4 if chk.quick else 16):
        many, late = [False] * rng.choice([6, 7, 8]), [rng.random() < 0.5]
        c = {"id": len(cases), "seed": rng.randint(1, 10 ** 9), "intervalMs": 15, "loss": 0, "dup": 0, "delay": rng.choice([10, 25]),
             "writers": 2, "writes": 300, "callers": 1, "craft": "", "suite": ""}
        if j % 2 == 0:
            c.update(updC=many, updS=late, lateS=len(many) - 1)
        else:
            c.update(updS=many, updC=late, lateC=len(many) - 1)
        cases.append(c)
    # the session starts with the server's NewSessionTicket flight outstanding (its first transmission is lost): the server
    # updates at once and keeps writing; whatever is re-sent later belongs to the generation it is sent under
    for j in range(4 if chk.quick else 16):
        cases.append({"id": len(cases), "seed": rng.randint(1, 10 ** 9), "intervalMs": rng.choice([15, 30]), "loss": rng.choice([0, 0, 10]),
                      "dup": 0, "delay": rng.choice([0, 10]), "writers": 2, "writes": rng.choice([25, 160]), "callers": 1, "craft": "", "suite": "",
                      "updS": [rng.random() < 0.5 for _ in range(rng.choice([1, 2]))], "updC": [True] if j % 4 == 3 else [],
                      "ticketLost": True})
    return cases


_POS = re.compile(r"^/\\ l = (\d+)", re.M)


def validate(chk, cases, rows):
    """TLC consumes the events of all sessions; a rejection (stuck trace or violated formula) names the session."""
    lines, owner = [], []
    for r in rows:
        for e in r.get("trace") or []:
            lines.append(e)
            owner.append(r["case"])
        lines.append({"ev": "reset"})
        owner.append(r["case"])
    total, start = len(lines), 0
    rejected = []
    stats = chk.parts.setdefault("trace_validation", {"events": 0, "tlc_runs": 0, "sessions": len(rows)})
    while start < total:
        chunk = lines[start:start + 40000]
        # never cut a session in two
        if start + len(chunk) < total:
            while chunk and chunk[-1]["ev"] != "reset":
                chunk.pop()
        res = vlib.tlc_trace(TRACE, TRACE + ".cfg", chunk, timeout=900)
        if not res.ok and not res.errors and not res.inv:       # the process vanished (shared machine): once more
            res = vlib.tlc_trace(TRACE, TRACE + ".cfg", chunk, timeout=900)
        stats["tlc_runs"] += 1
        chk.coverage["states"] += res.distinct
        chk.coverage["transitions"] += res.generated
        if res.ok:
            stats["events"] += len(chunk)
            start += len(chunk)
            continue
        if res.inv:
            pos = _POS.findall(res.out)
            bad = start + (int(pos[-1]) - 2 if pos else 0)     # l points behind the event that broke the formula
            why = "formula %s of PostHandshake13 is false after event %s" % (res.inv[0], json.dumps(lines[bad], sort_keys=True))
        elif any("Postcondition" in e or "postcondition" in e.lower() for e in res.errors) and res.depth >= 1:
            bad = start + res.depth - 1
            why = "event %s is not enabled in the C20 projection" % json.dumps(lines[bad], sort_keys=True)
        else:
            raise vlib.Inconclusive("trace validation failed to run: %s\n%s" % (res.errors[:3], res.out[-1500:]))
        bad = min(bad, total - 1)
        rejected.append((owner[bad], why, res.inv[0] if res.inv else "stuck"))
        stats["events"] += bad - start
        nxt = bad
        while nxt < total and lines[nxt]["ev"] != "reset":
            nxt += 1
        start = nxt + 1
        if len(rejected) >= 12:
            break
    return rejected


def selftest(chk, rows, skip=()):
    """Binding demonstration / vacuity guard: corrupted copies of an accepted trace must be rejected by the expected formula."""
    for r in rows:
        t = r.get("trace") or []
        kinds = {e["ev"] for e in t}
        if r["case"] in skip or r.get("violations") or not {"commit", "rxku", "read", "ret", "acked", "deliver"} <= kinds:
            continue
        try:
            return selftest_on(chk, t)
        except (ValueError, TypeError):
            continue        # this session lacks the event pattern a corruption needs
    raise vlib.Inconclusive("no session with a complete key update to run the trace self-test on")


def selftest_on(chk, base):
    def first(ev, **kw):
        for i, e in enumerate(base):
            if e["ev"] == ev and all(e.get(k) == v for k, v in kw.items()):
                return i
        return None
    variants = []
    i = first("read")
    variants.append(("AtMostOnceUnmodified", base[:i + 1] + [base[i]] + base[i + 1:]))            # a payload read twice
    i = first("commit")
    j = max(k for k in range(i) if base[k]["ev"] == "rxku" and base[k]["side"] != base[i]["side"])
    variants.append(("WriteEpochAuthorised", base[:j] + [base[i]] + base[j:i] + base[i + 1:]))      # commit before the peer authorised
    i = first("ret", ok=True)
    j = max(k for k in range(i) if base[k]["ev"] == "acked" and base[k]["side"] == base[i]["side"])
    st = max(k for k in range(j) if base[k]["ev"] == "start" and base[k]["side"] == base[i]["side"] and base[k]["user"])
    variants.append(("UpdateKeysReturnsAfterAck", base[:st + 1] + [base[i]] + base[st + 1:i] + base[i + 1:]))  # return before the ACK
    i = first("deliver")
    variants.append(("stuck", base[:i + 1] + [base[i]] + base[i + 1:]))                              # one record accepted twice
    i = first("deliver")
    variants.append(("UnauthorisedEpochRejected", base[:i] + [dict(base[i], epoch=base[i]["epoch"] + 4, seq=77777)] + base[i:]
                     if False else base[:i] + [{"ev": "craft", "side": "c" if base[i]["side"] == "s" else "s", "epoch": 4, "seq": 77777},
                                               {"ev": "deliver", "side": base[i]["side"], "epoch": 4, "seq": 77777}] + base[i:]))
    okn = 0
    for want, tr in variants:
        fake = [{"case": 0, "trace": tr}]
        sub = vlib.Check(chk.prop, chk.tier, chk.seed)
        rej = validate(sub, None, fake)
        got = rej[0][2] if rej else None
        if want == "UnauthorisedEpochRejected" and got == "stuck":
            continue      # the session had already reached epoch 4 when its first record was delivered: not applicable
        if got != want:
            raise vlib.Inconclusive("trace self-test: corrupted trace expected to fail %s, TLC said %s" % (want, got))
        okn += 1
    chk.parts["trace_selftest"] = {"corrupted_traces_rejected": okn}


def evaluate(chk, cases, rows):
    flagged = set()
    tot = {"writes": 0, "reads": 0, "unfaulted": 0, "updates": 0, "commits": 0, "secrets": 0, "faults": 0}
    maxep = 0
    for r in rows:
        c = cases[r["case"]]
        if r.get("lab"):
            raise vlib.Inconclusive("free-running session %d could not run: %s" % (r["case"], r["lab"]))
        for k in tot:
            tot[k] += r.get(k, 0)
        maxep = max(maxep, r.get("maxEpoch", 0))
        for i in (r.get("info") or [])[:2]:
            chk.note("session %d: %s" % (r["case"], i))
        for v in (r.get("violations") or []):
            flagged.add(r["case"])
            chk.violation({"kind": v["kind"], "what": VIOLATION_WHAT.get(v["kind"], v["kind"]) + ": " + v["what"], "mode": "free", "case": c,
                           "events": (r.get("events") or [])[-150:]})
        chk.evaluated("session-seed-%d" % c["seed"])
    tot["max_epoch"] = maxep
    return flagged, tot


def run_free(chk, binary):
    cases = build_cases(chk)
    rows = run_harness(binary, "TestVerifC20Free", cases, "c", timeout=1500)
    rows.sort(key=lambda r: r["case"])
    flagged, tot = evaluate(chk, cases, rows)
    rejected = validate(chk, cases, rows)
    if not flagged and not rejected:
        selftest(chk, rows)
    chk.traces(len(rows))
    for case_id, why, formula in rejected:
        kind = {"UpdateKeysReturnsAfterAck": "updatekeys-returned-before-ack", "AtMostOnceUnmodified": "payload-twice",
                "SealEpochMonotone": "seal-epoch-decreased", "UnauthorisedEpochRejected": "unauthorised-epoch-accepted",
                "WriteEpochAuthorised": "write-epoch-unauthorised"}.get(formula, "trace-rejected")
        chk.violation({"kind": kind, "what": VIOLATION_WHAT[kind] + ": TLC: " + why, "mode": "free", "case": cases[case_id], "formula": formula})
    chk.parts["free_running"] = dict(tot, sessions=len(rows), sessions_rejected_by_tlc=len(rejected), sessions_flagged_by_harness=len(flagged))
    chk.sample({"free_session": {k: cases[0][k] for k in ("seed", "loss", "dup", "delay", "writers", "updC", "updS", "craft")},
                "result": {k: rows[0].get(k) for k in ("writes", "reads", "unfaulted", "updates", "commits", "maxEpoch")}})
    if (tot["updates"] < len(rows) // 2 or tot["commits"] == 0 or tot["unfaulted"] < 100 or tot["secrets"] == 0) and not chk.violations:
        raise vlib.Inconclusive("vacuous free-running part: %s" % tot)


def replay_free(chk, binary, facts):
    case = dict(facts["case"], id=0)
    for _ in range(5):          # schedules are sampled: the failing interleaving may need several attempts
        rows = run_harness(binary, "TestVerifC20Free", [case], "r")
        flagged, _ = evaluate(chk, [case], rows)
        rejected = validate(chk, [case], rows)
        if flagged or rejected:
            for _, why, formula in rejected:
                chk.violation(dict(facts, replayed=True, formula=formula))
            return
