"""C14 session resumption never keys a connection from mismatched secrets.
(A) TLC: ResumeSound, ClientResumeSound, ServerResumeSound, MismatchFallsBackOrFails, UnknownFallsBack, AlertDropsSession,
    NeverOfferedAgain, NeverResumedAgain, AbbreviatedWritesNothing on spec/Resumption.tla: histories of up to three connections
    (sequential and interleaved) sharing a client and a server session store, every pre-populated store content, a fault budget on
    the abbreviated flights (loss with retransmission, ClientHello modified in flight, a peer that sends a wrong verify_data,
    handshake deadline, provoked fatal alert).  Five deliberately broken variants must fail;
(B) every edge script TLC generates (store content x history x fault position) is replayed on real client / server pairs that
    share two instrumented stores; after every step the projected state is compared with the model (DIVERGENCE notes), and the
    property predicates are evaluated on the real observations: HandshakeContext results, hello exchange on the wire
    (abbreviated or full), master secrets of both ends, secrets the stores returned, hello randoms, exporter output, connection
    IDs, application data both ways, records of another connection of the same session injected, store contents and store
    operations after a fatal alert."""
import json
import os
import random
import shutil

import vlib

MODULE = "Resumption"

# per-connection configurations; a history keeps one authentication family (the client's store key contains the server name)
FAM = {
    "cert": [
        dict(auth="cert", suite="TLS_ECDHE_ECDSA_WITH_AES_128_GCM_SHA256", cidC=-1, cidS=-1),
        dict(auth="cert", suite="TLS_ECDHE_ECDSA_WITH_AES_256_GCM_SHA384", cidC=-1, cidS=-1),
        dict(auth="cert", suite="TLS_ECDHE_ECDSA_WITH_AES_128_CCM_8", cidC=8, cidS=8),
        dict(auth="cert", suite="TLS_ECDHE_ECDSA_WITH_AES_256_CBC_SHA", cidC=-1, cidS=-1),
        dict(auth="cert", suite="TLS_ECDHE_ECDSA_WITH_CHACHA20_POLY1305_SHA256", cidC=8, cidS=6),
        dict(auth="cert", suite="", cidC=-1, cidS=-1, emsC=2, emsS=2),
        dict(auth="cert", suite="", cidC=8, cidS=-1),
    ],
    "psk": [
        dict(auth="psk", suite="TLS_PSK_WITH_AES_128_GCM_SHA256", cidC=-1, cidS=-1),
        dict(auth="psk", suite="TLS_PSK_WITH_AES_128_CCM_8", cidC=8, cidS=8),
        dict(auth="psk", suite="TLS_PSK_WITH_AES_128_CBC_SHA256", cidC=-1, cidS=-1),
        dict(auth="psk", suite="TLS_PSK_WITH_CHACHA20_POLY1305_SHA256", cidC=6, cidS=8),
    ],
    "rsa": [
        dict(auth="rsa", suite="TLS_ECDHE_RSA_WITH_AES_128_GCM_SHA256", cidC=-1, cidS=-1),
        dict(auth="rsa", suite="TLS_ECDHE_RSA_WITH_AES_256_CBC_SHA", cidC=8, cidS=8),
    ],
}

BROKEN = [
    ("Resumption.broken.nocheck.cfg", "ResumeSound"),
    ("Resumption.broken.nokeys.cfg", "MismatchFallsBackOrFails"),
    ("Resumption.broken.noclientcheck.cfg", "ClientResumeSound"),
    ("Resumption.broken.noservercheck.cfg", "ServerResumeSound"),
    ("Resumption.broken.noalertdel.cfg", "AlertDropsSession"),
    ("Resumption.broken.stalerandom.cfg", "ResumeSound"),
    ("Resumption.broken.inheritcid.cfg", "ResumeSound"),
    ("Resumption.broken.pinned.cfg", "ClientResumesOnlyOffered"),
]

ROGUE_SCENS = [
    dict(auth="cert", suite="TLS_ECDHE_ECDSA_WITH_AES_128_GCM_SHA256", cidC=-1, cidS=-1),
    dict(auth="cert", suite="TLS_ECDHE_ECDSA_WITH_AES_256_CBC_SHA", cidC=-1, cidS=-1),
    dict(auth="cert", suite="TLS_ECDHE_ECDSA_WITH_AES_128_CCM_8", cidC=8, cidS=8),
    dict(auth="cert", suite="TLS_ECDHE_ECDSA_WITH_CHACHA20_POLY1305_SHA256", cidC=-1, cidS=-1),
    dict(auth="psk", suite="TLS_PSK_WITH_AES_128_GCM_SHA256", cidC=-1, cidS=-1),
    dict(auth="rsa", suite="TLS_ECDHE_RSA_WITH_AES_256_GCM_SHA384", cidC=-1, cidS=-1),
]
ROGUE_SECRET = {"E": "empty", "SB": "SB", "SA": "SA", "ST": "ST"}


def dedupe_prefixes(scripts):
    """A script that is a proper prefix of another one is covered by it (the state is compared after every step)."""
    def key(s):
        return tuple((x["act"], x["k"], tuple(x["arg"])) for x in s["steps"])
    prefixes = set()
    keyed = []
    for s in scripts:
        k = (s["content"],) + key(s)
        keyed.append((k, s))
    for k, _ in keyed:
        for n in range(2, len(k)):
            prefixes.add(k[:n])
    seen = set()
    out = []
    for k, s in keyed:
        if k in prefixes or k in seen:
            continue
        seen.add(k)
        out.append(s)
    return out


def make_case(rng, s, idx):
    steps = s["steps"]
    uses_cert = any(x["act"] == "Start" and x["arg"][1] == "cert" for x in steps)
    tamper = any(x["act"] == "Tamper" for x in steps)
    fam = "cert" if uses_cert else rng.choice(["cert", "cert", "psk", "rsa"])
    nconn = max([x["k"] for x in steps] + [1])
    scens = []
    hv = (not tamper) and rng.random() < 0.4
    for _ in range(nconn):
        sc = dict(rng.choice(FAM[fam]), ver="12", helloVerify=hv)
        scens.append(sc)
    name = "%s/%05d/%s" % (s["content"], idx, "+".join("%s%d%s" % (x["act"][:2], x["k"], "".join(a[:3] for a in x["arg"])) for x in steps))
    return {"name": name[:200], "content": s["content"], "scens": scens, "steps": steps}


def run_cases(cases, binary, keep=False):
    wd = vlib.scratch("c14")
    rows, sums = [], []
    try:
        batch = 4000
        for b in range(0, len(cases), batch):
            part = cases[b:b + batch]
            inp, out = os.path.join(wd, "in%d" % b), os.path.join(wd, "out%d" % b)
            with open(inp, "w") as fh:
                for c in part:
                    fh.write(json.dumps(dict(c, keep=keep)) + "\n")
            rc, txt = vlib.run_test(binary, "TestVerifResumption", {"VERIF_IN": inp, "VERIF_OUT": out}, timeout=1500)
            if rc != 0 or not os.path.exists(out):
                raise vlib.Inconclusive("resumption harness failed (batch at %d): %s" % (b, txt[-3000:]))
            rs = vlib.read_ndjson(out)
            summ = rs[-1]
            if summ.get("cases") != len(part):
                raise vlib.Inconclusive("resumption harness ran %s of %d cases" % (summ.get("cases"), len(part)))
            for r in rs[:-1]:
                r["case"] += b
                rows.append(r)
            sums.append(summ)
        total = {}
        for s in sums:
            for k, v in s.items():
                total[k] = total.get(k, 0) + v
        return rows, total
    finally:
        shutil.rmtree(wd, ignore_errors=True)


def rogue_cases(scripts):
    """Model scripts of a connection to a rogue peer -> cases of TestVerifRogueResume."""
    cases = []
    for i, s in enumerate(scripts):
        steps = s["steps"]
        if not steps or steps[0]["act"] not in ("StartRogue", "StartRogueClient"):
            continue
        rid, rsec = steps[0]["arg"]
        client_mode = steps[0]["act"] == "StartRogueClient"
        script = []
        expect = "running"
        for x in steps[1:]:
            if x["act"] == "Abort":
                break
            if client_mode:
                if x["act"] == "Deliver" and x["arg"][0] == "CH":
                    script.append("CH")
                elif x["act"] == "Deliver" and x["arg"][0] == "F5b":
                    script.append("FIN")
                elif x["act"] == "Timeout" and x["arg"][0] == "s":
                    script.append("T")
                expect = {"est": "est", "closed": "est", "failed": "failed"}.get(x["post"]["s"][0], "running")
            else:
                if x["act"] == "RogueHello":
                    script.append("SH+FIN" if x["arg"][0] == "fin" else "SH")
                elif x["act"] == "Timeout" and x["arg"][0] == "c":
                    script.append("T")
                expect = {"est": "est", "closed": "est", "failed": "failed"}.get(x["post"]["c"][0], "running")
        if not script:
            continue
        pool = [c for c in ROGUE_SCENS if c["cidC"] < 0] if client_mode else ROGUE_SCENS
        sc = dict(pool[i % len(pool)], ver="12", helloVerify=(client_mode and i % 3 == 0))
        cases.append({"name": "rogue-%s/%s/%s/%s/%s/%s" % ("client" if client_mode else "server", s["content"], rid, rsec, "-".join(script), sc["suite"][4:]),
                      "scen": sc, "content": s["content"], "sid": ("R" if client_mode else "new") if rid == "R" else "A",
                      "secret": ROGUE_SECRET[rsec], "script": script, "expect": expect, "mode": "client" if client_mode else ""})
    return cases


def run_rogue(chk, binary, cases):
    wd = vlib.scratch("c14r")
    try:
        inp, out = os.path.join(wd, "in"), os.path.join(wd, "out")
        with open(inp, "w") as fh:
            for c in cases:
                fh.write(json.dumps(c) + "\n")
        rc, txt = vlib.run_test(binary, "TestVerifRogueResume", {"VERIF_IN": inp, "VERIF_OUT": out}, timeout=900)
        if rc != 0 or not os.path.exists(out):
            raise vlib.Inconclusive("rogue-peer harness failed: " + txt[-3000:])
        rows = vlib.read_ndjson(out)
        if len(rows) != len(cases):
            raise vlib.Inconclusive("rogue-peer harness ran %d of %d cases" % (len(rows), len(cases)))
        return rows
    finally:
        shutil.rmtree(wd, ignore_errors=True)


def evict_cases(chk):
    out = []
    fams = [("cert", ""), ("psk", "TLS_PSK_WITH_AES_128_GCM_SHA256"), ("rsa", "TLS_ECDHE_RSA_WITH_AES_128_GCM_SHA256")]
    for who in ("server-alpn", "client-ems"):
        for cver, sver in (("12", "12"), ("12", "dual")):
            for hv in (True, False):
                for auth, suite in (fams[:1] if chk.quick else fams):
                    out.append({"name": "%s/%s-%s/hv%d/%s" % (who, cver, sver, hv, auth), "who": who, "cver": cver, "sver": sver, "helloVerify": hv,
                                "auth": auth, "suite": suite})
    return out


def run_evict(binary, cases):
    wd = vlib.scratch("c14e")
    try:
        inp, out = os.path.join(wd, "in.json"), os.path.join(wd, "out.ndjson")
        json.dump(cases, open(inp, "w"))
        rc, txt = vlib.run_test(binary, "TestVerifC14Evict", {"VERIF_IN": inp, "VERIF_OUT": out}, timeout=900)
        if rc != 0 or not os.path.exists(out):
            raise vlib.Inconclusive("eviction harness failed: " + txt[-2000:])
        return vlib.read_ndjson(out)
    finally:
        shutil.rmtree(wd, ignore_errors=True)


def evict_part(chk, binary):
    cases = evict_cases(chk)
    rows = run_evict(binary, cases)
    if len(rows) != len(cases):
        raise vlib.Inconclusive("eviction harness ran %d of %d cases" % (len(rows), len(cases)))
    judged = 0
    for c, r in zip(cases, rows):
        if r.get("lab"):
            chk.note("eviction history %s not applicable: %s" % (c["name"], r["lab"]))
            continue
        judged += 1
        chk.evaluated(key="evict:" + c["name"])
        for v in (r.get("violations") or [])[:1]:
            chk.violation({"kind": "alerted-session-kept", "what": v, "evict_case": c})
    if judged < len(cases) * 3 // 4 and not chk.violations:
        raise vlib.Inconclusive("only %d of %d eviction histories could be judged" % (judged, len(cases)))
    chk.parts["evict_histories"] = {"cases": len(cases), "judged": judged}


def run(chk):
    t = chk.tier
    for v in ("seq", "ilv", "rogue", "loss"):
        res = vlib.tlc_check(MODULE, "Resumption.%s.mc.%s.cfg" % (v, t), timeout=2400)
        chk.add_tlc("mc." + v, res)
    for cfg, what in BROKEN:
        vlib.tlc_expect_violation(MODULE, cfg, what, timeout=600)
    chk.parts["broken_variants_rejected"] = [c for c, _ in BROKEN]
    scripts = []
    for v in ("hist3", "seq2", "ilv2"):
        gen = vlib.tlc_generate(MODULE, "Resumption.%s.gen.%s.cfg" % (v, t), timeout=1800)
        chk.add_tlc("gen." + v, gen)
        if len(gen.printed) < 500:
            raise vlib.Inconclusive("too few scripts from %s (%d)" % (v, len(gen.printed)))
        scripts += gen.printed
    edges = len(scripts)
    scripts = dedupe_prefixes(scripts)
    rng = random.Random(chk.seed)
    rng.shuffle(scripts)
    cap = 6000 if chk.quick else 32000
    if len(scripts) > cap:
        # keep every script that contains a fault or a second connection start late in the history, sample the rest
        scripts = scripts[:cap]
    # every loss pattern of the abbreviated flights (up to 3 / 4 losses with retransmissions) is always executed in full
    gen = vlib.tlc_generate(MODULE, "Resumption.loss.gen.%s.cfg" % t, timeout=1800)
    chk.add_tlc("gen.loss", gen)
    loss = dedupe_prefixes(gen.printed)
    if len(loss) < 200:
        raise vlib.Inconclusive("too few loss-pattern scripts (%d)" % len(loss))
    edges += len(gen.printed)
    scripts += loss
    cases = [make_case(rng, s, i) for i, s in enumerate(scripts)]
    binary = vlib.build("root")
    # ---- rogue peer scripts (a "server" that holds no secret of the client's store)
    gen = vlib.tlc_generate(MODULE, "Resumption.rogue.gen.%s.cfg" % t, timeout=900)
    chk.add_tlc("gen.rogue", gen)
    rcases = rogue_cases(dedupe_prefixes(gen.printed))
    if len(rcases) < 100:
        raise vlib.Inconclusive("too few rogue-peer scripts (%d)" % len(rcases))
    rrows = run_rogue(chk, binary, rcases)
    chk.traces(len(rrows))
    controls = rdiv = 0
    for r in rrows:
        c = rcases[r["case"]]
        chk.evaluated(key=c["name"])
        if r.get("lab"):
            raise vlib.Inconclusive("rogue-peer case %s could not run: %s" % (c["name"], r["lab"]))
        controls += 1 if r.get("control") else 0
        for v in (r.get("violations") or [])[:1]:
            chk.violation({"kind": "resumed-without-shared-secret", "side": "server" if c.get("mode") == "client" else "client", "what": v, "content": c["content"], "rogue_case": c,
                           "rogue_reads_application_data": r.get("appData"), "client_sent": r.get("clientSent")})
        if r.get("diverge") and not r.get("violations"):
            rdiv += 1
            if rdiv <= 3:
                chk.note("DIVERGENCE model/code (not a verdict): %s [%s]" % (r["diverge"], c["name"]))
    if controls < 5:
        raise vlib.Inconclusive("rogue-peer control (peer holding the client's secret is accepted) succeeded only %d times" % controls)
    chk.parts["rogue"] = {"cases": len(rcases), "controls_accepted": controls, "diverged": rdiv}
    chk.sample({"rogue": rcases[len(rcases) // 2]["name"]})
    # ---- fatal-alert clause with configurations that change from connection to connection (and dual-version servers)
    evict_part(chk, binary)
    # ---- histories
    rows, total = run_cases(cases, binary)
    chk.traces(total.get("cases", 0))
    chk.evaluated(n=total.get("steps", 0))
    for c in cases:
        chk.distinct.add(c["content"] + "|" + json.dumps([(x["act"], x["k"], x["arg"]) for x in c["steps"]]))
    ndiv = nlab = 0
    divkinds = {}
    for r in rows:
        c = cases[r["case"]]
        if r.get("lab"):
            nlab += 1
            if nlab <= 3:
                chk.note("lab: %s [%s]" % (r["lab"], c["name"][:80]))
            continue
        for v in r.get("violations") or []:
            chk.violation({"kind": v["kind"], "what": v["what"], "content": c["content"], "connection": v["k"],
                           "case": c, "conns": r.get("conns"), "cstore": r.get("cstore"), "sstore": r.get("sstore")})
        if r.get("diverge"):
            ndiv += 1
            d0 = r["diverge"][0]
            key = d0.split(":", 1)[-1].strip()[:60]
            divkinds[key] = divkinds.get(key, 0) + 1
            if ndiv <= 5:
                chk.note("DIVERGENCE model/code (not a verdict): %s [%s]" % (d0, c["name"][:80]))
    if chk.violations:
        return      # a real-code violation is reported even if other parts of the run are inconclusive
    if nlab > max(3, len(cases) // 100):
        raise vlib.Inconclusive("%d of %d histories could not be executed" % (nlab, len(cases)))
    if ndiv > len(cases) // 20:
        raise vlib.Inconclusive("model and code diverge on %d of %d histories: %s" % (ndiv, len(cases), sorted(divkinds.items(), key=lambda x: -x[1])[:4]))
    # vacuity guards: the interesting situations were really exercised
    need = {"resumed": 300, "full": 300, "failed": 300, "alerts": 50, "crossRejected": 50, "ctlOK": 100, "dataBothWays": 300}
    for k, n in need.items():
        if total.get(k, 0) < n:
            raise vlib.Inconclusive("vacuous resumption run: %s = %d (< %d)" % (k, total.get(k, 0), n))
    if total.get("ctlOK", 0) < 0.95 * total.get("ctlTried", 0):
        raise vlib.Inconclusive("record injection control failed: %s of %s" % (total.get("ctlOK"), total.get("ctlTried")))
    chk.parts["replay"] = dict(total, edge_scripts=edges, histories_executed=len(scripts), loss_pattern_scripts=len(loss), diverged=ndiv, lab=nlab)
    chk.sample({"history": cases[0]["name"], "steps": [(x["act"], x["k"], x["arg"]) for x in cases[0]["steps"]]})
    chk.sample({"store_contents": sorted(set(c["content"] for c in cases))})
    chk.coverage["rule"] = ("one script per edge of the Resumption.tla state graph (3 generation configurations: 3 sequential connections "
                            "without faults incl. client certificates, 2 sequential and 2 interleaved connections with one fault; every loss pattern of the abbreviated flights up to 3 (4) losses), prefix "
                            "scripts dropped, x 7 pre-populated store contents; each connection of a history gets a seeded configuration "
                            "(suite, CID lengths, EMS, hello verification) of one authentication family; distinct = content + action sequence")
    chk.assumptions += [
        "full-handshake flights travel reliably (faults are placed on the ClientHello, the abbreviated flights and alerts)",
        "secrets that differ only by trailing zero bytes are the same HMAC key; the truncated secret used here differs in non-zero bytes",
        "a session does not bind a cipher suite in pion/dtls: resuming under another suite is outside the property and exercised as configuration noise",
        "wrong verify_data of a peer that holds the keys is produced by presetting State12.LocalVerifyData in-package (no hook)",
    ]


def replay(chk, path):
    facts = json.load(open(path))
    binary = vlib.build("root")
    if "evict_case" in facts:
        chk.evaluated(key="replay")
        for r in run_evict(binary, [facts["evict_case"]]):
            if r.get("violations"):
                chk.violation(dict(facts, replayed=True), replay=path)
        return
    if "rogue_case" in facts:
        for r in run_rogue(chk, binary, [facts["rogue_case"]]):
            for v in r.get("violations") or []:
                chk.violation(dict(facts, replayed=True, what=v))
        return
    rows, _ = run_cases([facts["case"]], binary, keep=True)
    for r in rows:
        for v in r.get("violations") or []:
            chk.violation(dict(facts, replayed=True, what=v["what"], kind=v["kind"]))
