"""C13 cookie exchange.
(A) TLC: CookieFirst and NoTimerHVR on spec/Handshake12.tla (hello verification on, session unknown);
(B) every model edge script replayed on real endpoints: everything the server emits before the cookie came back is
    classified (must be cookie requests only, never caused by the timer);
(C) ClientHello pairs: a man in the middle rewrites the second ClientHello of a real client (cookie absent / wrong / one bit /
    truncated / extended / stale / removed, right cookie with altered random, session id, cipher suites, extensions), repeated
    1..3 times, with virtual timeouts in between, DTLS 1.2 and 1.3; real-time silence of >= 4 intervals after the cookie request."""
import json
import os
import shutil

import hsreplay
import hsreplay13
import scen
import vlib

MODULE = "Handshake12"
MUTS = ["absent", "wrongcookie", "lastbit", "truncated", "extended", "stale", "emptycookie", "random", "sessionid",
        "suites-reorder", "suites-drop", "ext-drop", "ext-append", "genuine",
        "stim-emptyack", "stim-ack", "stim-ccs", "stim-warning-alert", "stim-hs-garbage"]
# RFC 6347 4.2.1 lists version, random, session_id, cipher_suites, compression_methods as the parameters the second
# ClientHello must repeat (plus CID / use_srtp per the anchor): other DTLS 1.2 extensions are informational (DESIGN 4, C13)
INFO_ONLY = {("12", "ext-drop"), ("12", "ext-append")}


def run(chk):
    t = chk.tier
    res = vlib.tlc_check(MODULE, "Handshake12.full.safe.%s.cfg" % t, timeout=2400)
    chk.add_tlc("safe.full", res)
    binary = vlib.build("root")
    scripts = hsreplay.generate(chk, "full")
    # stale12: session stores present, the client offers a session id the server does not know ("does not resume a session it
    # knows"); "+nb": retransmission backoff disabled (the timer branch that must never send a cookie request is another one)
    fams = ["full12", "psk12", "psknohint12", "stale12", "full12+nb"] if chk.quick else ["full12", "psk12", "psknohint12", "clientauth12", "cid12", "stale12", "stores12", "full12+nb", "stale12+nb"]
    for famx in fams:
        fam, nb = famx.split("+")[0], famx.endswith("+nb")
        share = scripts if famx == "full12" else scripts[chk.seed % 3::3]
        rows, summ, sc = hsreplay.replay(chk, binary, fam, share, extra_scen={"noBackoff": True} if nb else None, bkcap=0 if nb else 3)
        fam = famx
        n = 0
        for r in rows:
            for v in [x for x in r.get("law", []) if "cookie" in x][:1]:
                n += 1
                chk.violation({"kind": "cookie-first", "variant": fam, "what": v.split(": ", 1)[-1],
                               "script": {"scen": sc, "steps": share[r["script"]]["steps"], "cap": 2, "bkcap": 3}})
        chk.parts["replay." + fam] = {"scripts": summ["scripts"], "cookie_violations": n}
    chk.sample({"script": [(x["act"], x["arg"]) for x in scripts[len(scripts) // 2]["steps"]]})
    # DTLS 1.3: CookieFirst13 / NoTimerHRR on spec/Handshake13.tla and its edge scripts on real endpoints
    res = vlib.tlc_check("Handshake13", "Handshake13.hrr.safe.%s.cfg" % t, timeout=2400)
    chk.add_tlc("safe13.hrr", res)
    scripts13 = hsreplay13.generate(chk, "hrr")
    rows, summ, sc13 = hsreplay13.replay(chk, binary, "hrr", scripts13)
    n13 = 0
    for r in rows:
        for v in [x for x in r.get("law", []) if "C13" in x][:1]:
            n13 += 1
            chk.violation({"kind": "cookie-first-13", "what": v,
                           "script13": {"scen": sc13, "steps": scripts13[r["script"]]["steps"], "cap": 2, "bkcap": 3}})
    chk.parts["replay13.hrr"] = {"scripts": summ["scripts"], "cookie_violations": n13, "diverged": summ.get("diverged", 0)}
    nb13 = scripts13[chk.seed % 4::4]
    rows, summ, scnb = hsreplay13.replay(chk, binary, "hrr", nb13, extra_scen={"noBackoff": True}, tag="-nobackoff")
    nnb = 0
    for r in rows:
        for v in [x for x in r.get("law", []) if "C13" in x][:1]:
            nnb += 1
            chk.violation({"kind": "cookie-first-13", "what": v,
                           "script13": {"scen": scnb, "steps": nb13[r["script"]]["steps"], "cap": 2, "bkcap": 3}})
    chk.parts["replay13.hrr.nobackoff"] = {"scripts": summ["scripts"], "cookie_violations": nnb}
    # (C) ClientHello pairs
    cases = []
    fams = ["full12", "psk12", "psknohint12", "stale12", "hrr13s"] if chk.quick else ["full12", "psk12", "psknohint12", "cid12", "clientauth12", "stale12", "stores12", "hrr13s"]
    for fam in fams:
        for mut in MUTS:
            for reps in (1, 2, 3):
                for timer in (False, True):
                    cases.append({"scen": scen.ALL[fam], "name": "%s/%s/x%d/%s" % (fam, mut, reps, "timer" if timer else "notimer"),
                                  "mut": mut, "reps": reps, "timer": timer})
    wd = vlib.scratch("c13")
    try:
        inp, out = os.path.join(wd, "in"), os.path.join(wd, "out")
        with open(inp, "w") as fh:
            for c in cases:
                fh.write(json.dumps(c) + "\n")
        rc, txt = vlib.run_test(binary, "TestVerifCookie", {"VERIF_IN": inp, "VERIF_OUT": out}, timeout=1800)
        if rc != 0 or not os.path.exists(out):
            raise vlib.Inconclusive("cookie harness failed: " + txt[-1500:])
        rows = vlib.read_ndjson(out)
        applied = progressed = 0
        for r in rows:
            c = cases[r["case"]]
            chk.evaluated(key="pair:" + c["name"])
            if r.get("lab"):
                raise vlib.Inconclusive("cookie case %s could not run: %s" % (c["name"], r["lab"]))
            applied += 1 if r.get("applied") else 0
            if c["mut"] in ("genuine", "absent") and any(x == "ServerHello" for x in (r.get("after") or []) + r.get("emitted", [])):
                progressed += 1
            ver = c["scen"]["ver"]
            for v in r.get("violations") or []:
                if (ver, c["mut"]) in INFO_ONLY:
                    chk.note("info (outside the RFC 6347 4.2.1 parameter list): %s" % v)
                    break
                if c["mut"].startswith("stim-") and "cookie requests although" in v:
                    chk.violation({"kind": "cookie-request-without-clienthello", "ver": ver, "stimulus": c["mut"], "what": v,
                                   "case": c, "emitted": r.get("emitted")})
                else:
                    chk.violation({"kind": "hello-pair", "what": v, "case": c, "emitted": r.get("emitted")})
                break
        if applied < len(cases) * 0.8 or progressed == 0:
            raise vlib.Inconclusive("vacuous cookie run: %d of %d mutations applied, %d positive controls" % (applied, len(cases), progressed))
        chk.parts["hello_pairs"] = {"cases": len(cases), "mutations_applied": applied, "positive_controls_progressed": progressed}
        chk.sample({"pair": rows[3]["name"], "server_emitted": rows[3].get("emitted")})
        # real-time silence after the cookie request
        sil = [{"scen": dict(scen.ALL[f], intervalMs=10), "name": "%s/s/F2" % f, "side": "s", "flight": "F2", "gaps": 4}
               for f in ("full12", "stale12", "hrr13s", "hrr13")]
        sil += [{"scen": dict(scen.ALL[f], intervalMs=10, noBackoff=True), "name": "%s-nobackoff/s/F2" % f, "side": "s", "flight": "F2", "gaps": 4}
                for f in ("full12", "hrr13s")]
        with open(inp, "w") as fh:
            for c in sil:
                fh.write(json.dumps(c) + "\n")
        rc, txt = vlib.run_test(binary, "TestVerifSilence", {"VERIF_IN": inp, "VERIF_OUT": out}, timeout=600)
        if rc != 0:
            raise vlib.Inconclusive("silence harness failed: " + txt[-1500:])
        for r in vlib.read_ndjson(out):
            chk.evaluated(key="silence:" + r["name"])
            if r.get("lab"):
                raise vlib.Inconclusive("silence case failed: " + r["lab"])
            for v in r.get("hard") or []:
                chk.violation({"kind": "cookie-request-retransmitted", "what": v, "case": sil[r["case"]]})
    finally:
        shutil.rmtree(wd, ignore_errors=True)
    chk.coverage["rule"] = ("model edge scripts x families; ClientHello pairs = mutation class x repetition 1..3 x timer on/off x family")
    chk.assumptions += ["'otherwise identical' = RFC 6347 4.2.1 parameter list (+CID, use_srtp) for 1.2, RFC 8446 4.1.2 for 1.3",
                        "alerts answering a bad second ClientHello are allowed (reported as information)"]


def replay(chk, path):
    facts = json.load(open(path))
    binary = vlib.build("root")
    wd = vlib.scratch("c13r")
    try:
        inp, out = os.path.join(wd, "in"), os.path.join(wd, "out")
        if "case" in facts:
            open(inp, "w").write(json.dumps(facts["case"]) + "\n")
            vlib.run_test(binary, "TestVerifCookie", {"VERIF_IN": inp, "VERIF_OUT": out})
            for r in vlib.read_ndjson(out):
                if r.get("violations"):
                    chk.violation(dict(facts, replayed=True))
        elif "script13" in facts:
            open(inp, "w").write(json.dumps(facts["script13"]) + "\n")
            vlib.run_test(binary, "TestVerifHs13Scripts", {"VERIF_IN": inp, "VERIF_OUT": out})
            chk.evaluated(key="replay13")
            chk.evaluated(key="replay")
            for r in vlib.read_ndjson(out)[:-1]:
                if any("C13" in x for x in r.get("law", [])):
                    chk.violation(dict(facts, replayed=True), replay=path)
        elif "script" in facts:
            open(inp, "w").write(json.dumps(facts["script"]) + "\n")
            vlib.run_test(binary, "TestVerifHsScripts", {"VERIF_IN": inp, "VERIF_OUT": out})
            for r in vlib.read_ndjson(out)[:-1]:
                if any("cookie" in x for x in r.get("law", [])):
                    chk.violation(dict(facts, replayed=True))
    finally:
        shutil.rmtree(wd, ignore_errors=True)
