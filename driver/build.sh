#!/bin/bash
# Build harness test binaries from /repo's CURRENT working tree with the verif tag,
# compiling /verif/harness/<pkg>/*.go into the corresponding /repo package via -overlay.
# usage: build.sh <harness-dir-name> [extra go flags]   -> prints the binary path
set -euo pipefail
VERIF=${VERIF_ROOT:-$(cd "$(dirname "$0")/.." && pwd)}
REPO=${VERIF_REPO:-/repo}
name=$1; shift || true
export GOFLAGS=-mod=mod GOPROXY=off
unset GOSUMDB || true
case "$name" in
  root) pkgdir="" ;;
  *) pkgdir="$(cat "$VERIF/harness/$name/PKG")" ;;
esac
mkdir -p "$VERIF/.build"
ov="$VERIF/.build/overlay.$name.$$.json"
python3 - "$VERIF/harness/$name" "$REPO/$pkgdir" > "$ov" <<'PY'
import json,sys,os
src,dst=sys.argv[1],sys.argv[2]
rep={}
for f in sorted(os.listdir(src)):
    if f.endswith('.go'):
        rep[os.path.join(dst,'zz_verif_'+f)]=os.path.join(src,f)
print(json.dumps({"Replace":rep}))
PY
suffix=""
for a in "$@"; do [ "$a" = "-race" ] && suffix=".race"; done
out="$VERIF/.build/$name$suffix.test"
(cd "$REPO" && go test -c -vet=off -tags verif -overlay "$ov" "$@" -o "$out" "./$pkgdir") >&2
rm -f "$ov"
echo "$out"
