"""Shared by C02 / C13 / C17 / C01: replay TLC edge scripts of Handshake12.tla on real endpoints."""
import json
import os
import shutil

import scen
import vlib

MODULE = "Handshake12"


def generate(chk, variant, tier=None, cfg=None):
    gen = vlib.tlc_generate(MODULE, cfg or "Handshake12.%s.gen.%s.cfg" % (variant, tier or chk.tier), timeout=1500)
    chk.add_tlc("gen." + variant, gen)
    if len(gen.printed) < 100:
        raise vlib.Inconclusive("too few scripts for %s" % variant)
    return gen.printed


def replay(chk, binary, fam, scripts, extra_scen=None, bkcap=3):
    """Returns (rows, summary): rows are flagged results (diverge / law / not completed)."""
    wd = vlib.scratch("hsr")
    try:
        inp, out = os.path.join(wd, "in.ndjson"), os.path.join(wd, "out.ndjson")
        sc = dict(scen.ALL[fam], **(extra_scen or {}))
        with open(inp, "w") as fh:
            for s in scripts:
                fh.write(json.dumps({"scen": sc, "steps": s["steps"], "cap": 2, "bkcap": bkcap,
                                     "split": scen.MODEL12.get(fam) == "split"}) + "\n")
        rc, txt = vlib.run_test(binary, "TestVerifHsScripts", {"VERIF_IN": inp, "VERIF_OUT": out}, timeout=2400)
        if rc != 0 or not os.path.exists(out):
            raise vlib.Inconclusive("script replay harness failed (%s): %s" % (fam, txt[-2000:]))
        rows = vlib.read_ndjson(out)
        summ = rows[-1]
        if summ["scripts"] != len(scripts) or summ.get("lab", 0) > max(3, len(scripts) // 200):
            raise vlib.Inconclusive("script replay incomplete for %s: %s" % (fam, summ))
        chk.traces(summ["scripts"])
        chk.evaluated(n=summ["scripts"])
        for s in scripts:
            chk.distinct.add(fam + json.dumps([(x["act"], x["arg"]) for x in s["steps"]]))
        return [r for r in rows[:-1] if not r.get("lab")], summ, sc
    finally:
        shutil.rmtree(wd, ignore_errors=True)


def families(variant):
    return [k for k, v in scen.MODEL12.items() if v == variant]
