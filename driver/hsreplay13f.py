"""Shared by C02 / C17 (and C12 for DTLS 1.3): model check spec/Handshake13F.tla (DTLS 1.3 handshake whose server flight spans
several datagrams: selective acknowledgement / selective retransmission) and replay its edge scripts on real endpoints
(harness/root/hs13f_test.go, virtual timers, MTU 600, one classical group)."""
import json
import os
import random
import shutil

import vlib

MODULE = "Handshake13F"
SCEN = dict(ver="13", helloVerify=False, mtu=600, curvesC=[29], curvesS=[29], cidC=-1, cidS=-1)
QMAX = 8


def model_check(chk):
    for cfg in ("safe", "safe2"):
        chk.add_tlc("13f." + cfg, vlib.tlc_check(MODULE, "Handshake13F.%s.%s.cfg" % (cfg, chk.tier), timeout=2400))


def vacuity(chk):
    vlib.tlc_expect_violation(MODULE, "Handshake13F.safe.nosel.cfg", "SelectiveRetransmit (whole flight re-sent)", timeout=600)
    vlib.tlc_expect_violation(MODULE, "Handshake13F.safe.ackall.cfg", "AckSound (acknowledging what was not received)", timeout=600)


def liveness(chk):
    res = vlib.tlc_check(MODULE, "Handshake13F.live.%s.cfg" % chk.tier, timeout=2400)
    chk.add_tlc("13f.live", res)
    vlib.tlc_expect_violation(MODULE, "Handshake13F.live.ackall.cfg", "BothEstablish (false acknowledgements lose data)", timeout=600)


def generate(chk, limit=None, variant=""):
    """variant "": MTU 600, the server flight leaves in three datagrams; "m400": MTU 400, four datagrams (an acknowledgement can
    then cover whole messages only while another whole message is still missing)."""
    out, seen = [], set()
    # m400 genc: two losses, no reordering - e.g. both Certificate datagrams lost while the rest of the flight arrives
    # (thorough: genb = two losses and two time-outs without reordering, genc = one loss, one reordering, two time-outs; the
    # product of all three budgets does not fit into memory with the history variable)
    shapes = ("gena", "genb") if not variant else ("gena", "genc") if chk.quick else ("gena", "genb", "genc")
    for shape in shapes:
        cfg = "Handshake13F.%s%s.%s.cfg" % (variant + "." if variant else "", shape, chk.tier)
        gen = vlib.tlc_generate(MODULE, cfg, timeout=2400)
        chk.add_tlc("13f." + (variant + "." if variant else "") + shape, gen)
        printed = gen.printed
        gen.printed = []
        if limit and len(printed) > 4 * limit:      # keep memory bounded: thin out before de-duplicating
            printed = random.Random(chk.seed + len(out)).sample(printed, 4 * limit)
        for g in printed:
            k = hash(json.dumps([(x["act"], x["dir"], x["pos"], x["name"]) for x in g["steps"]]))
            if k not in seen:
                seen.add(k)
                out.append(g)
        del printed
    if len(out) < 1000:
        raise vlib.Inconclusive("too few fragmented-flight scripts (%d)" % len(out))
    if limit and len(out) > limit:
        out = random.Random(chk.seed).sample(out, limit)
    return out


def scen_of(variant=""):
    return dict(SCEN, mtu=400) if variant == "m400" else SCEN


def replay(chk, binary, scripts, tag="", variant=""):
    """Returns (flagged rows, summary)."""
    wd = vlib.scratch("hsr13f")
    try:
        inp, out = os.path.join(wd, "in.ndjson"), os.path.join(wd, "out.ndjson")
        with open(inp, "w") as fh:
            for s in scripts:
                fh.write(json.dumps({"scen": scen_of(variant), "steps": s["steps"], "qmax": QMAX, "bkcap": 3}) + "\n")
        rc, txt = vlib.run_test(binary, "TestVerifHs13FScripts", {"VERIF_IN": inp, "VERIF_OUT": out}, timeout=3000)
        if rc != 0 or not os.path.exists(out):
            raise vlib.Inconclusive("fragmented-flight replay harness failed: %s" % txt[-2000:])
        rows = vlib.read_ndjson(out)
        summ = rows[-1]
        if summ["scripts"] != len(scripts) or summ.get("lab", 0) > max(3, len(scripts) // 200):
            raise vlib.Inconclusive("fragmented-flight replay incomplete: %s" % summ)
        if summ.get("diverged", 0) > len(scripts) // 4:
            chk.note("DIVERGENCE: %d of %d fragmented-flight scripts%s left the model's projection" % (summ["diverged"], len(scripts), tag))
        chk.traces(summ["scripts"])
        chk.evaluated(n=summ["scripts"])
        for s in scripts:
            chk.distinct.add("13f" + variant + tag + json.dumps([(x["act"], x["dir"], x["pos"], x["name"]) for x in s["steps"]]))
        return [r for r in rows[:-1] if not r.get("lab")], summ
    finally:
        shutil.rmtree(wd, ignore_errors=True)


def replay_one(chk, binary, script):
    """Re-run one archived script (the 'script13f' fact of a replay file); returns (rows, summary)."""
    wd = vlib.scratch("hsr13f1")
    try:
        inp, out = os.path.join(wd, "in"), os.path.join(wd, "out")
        open(inp, "w").write(json.dumps(script) + "\n")
        rc, txt = vlib.run_test(binary, "TestVerifHs13FScripts", {"VERIF_IN": inp, "VERIF_OUT": out})
        if rc != 0 or not os.path.exists(out):
            raise vlib.Inconclusive("fragmented-flight replay harness failed: %s" % txt[-2000:])
        rows = vlib.read_ndjson(out)
        chk.evaluated(key="replay13f")
        return rows[:-1], rows[-1]
    finally:
        shutil.rmtree(wd, ignore_errors=True)
