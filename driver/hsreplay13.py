"""Shared by C02 / C13 / C17: model check spec/Handshake13.tla and replay its edge scripts on real DTLS 1.3 endpoints
(harness/root/hs13_test.go, virtual timers)."""
import json
import os
import shutil

import scen
import vlib

MODULE = "Handshake13"
FAMILY = {"hrr": "hrr13s", "nohrr": "nohrr13s"}


def generate(chk, variant, tier=None):
    # two bound shapes: (drops, duplicates, timeouts) = wide in faults / deep in timeouts (a lost datagram, its retransmission
    # by the timer, and a further timer event afterwards)
    out, seen = [], set()
    for shape in ("gen", "genb"):
        gen = vlib.tlc_generate(MODULE, "Handshake13.%s.%s.%s.cfg" % (variant, shape, tier or chk.tier), timeout=1800)
        chk.add_tlc("%s13.%s" % (shape, variant), gen)
        for g in gen.printed:
            k = json.dumps([(x["act"], x["arg"]) for x in g["steps"]])
            if k not in seen:
                seen.add(k)
                out.append(g)
    if len(out) < 1000:
        raise vlib.Inconclusive("too few DTLS 1.3 scripts for %s" % variant)
    if (tier or chk.tier) == "quick" and len(out) > 30000:   # the quick tier replays a seeded sample of the edges
        import random
        out = random.Random(chk.seed).sample(out, 30000)
    return out


def replay(chk, binary, variant, scripts, extra_scen=None, tag=""):
    """Returns (flagged rows, summary, scenario)."""
    wd = vlib.scratch("hsr13")
    try:
        inp, out = os.path.join(wd, "in.ndjson"), os.path.join(wd, "out.ndjson")
        sc = dict(scen.ALL[FAMILY[variant]], **(extra_scen or {}))
        with open(inp, "w") as fh:
            for s in scripts:
                fh.write(json.dumps({"scen": sc, "steps": s["steps"], "cap": 2, "bkcap": 3}) + "\n")
        rc, txt = vlib.run_test(binary, "TestVerifHs13Scripts", {"VERIF_IN": inp, "VERIF_OUT": out}, timeout=2400)
        if rc != 0 or not os.path.exists(out):
            raise vlib.Inconclusive("DTLS 1.3 script replay harness failed (%s): %s" % (variant, txt[-2000:]))
        rows = vlib.read_ndjson(out)
        summ = rows[-1]
        if summ["scripts"] != len(scripts) or summ.get("lab", 0) > max(3, len(scripts) // 200):
            raise vlib.Inconclusive("DTLS 1.3 script replay incomplete for %s: %s" % (variant, summ))
        if summ.get("diverged", 0) > len(scripts) // 4:
            # the model no longer describes the flight machine: its scripts cannot be trusted to reach the states they name
            chk.note("DIVERGENCE: %d of %d DTLS 1.3 scripts (%s%s) left the model's projection" % (summ["diverged"], len(scripts), variant, tag))
        chk.traces(summ["scripts"])
        chk.evaluated(n=summ["scripts"])
        for s in scripts:
            chk.distinct.add("13" + variant + tag + json.dumps([(x["act"], x["arg"]) for x in s["steps"]]))
        return [r for r in rows[:-1] if not r.get("lab")], summ, sc
    finally:
        shutil.rmtree(wd, ignore_errors=True)
