"""Scenario families shared by the handshake-related checks (JSON form of harness scenCfg)."""

NOCID = {"cidC": -1, "cidS": -1}

V12 = {
    "full12": dict(ver="12", helloVerify=True, **NOCID),
    "nohv12": dict(ver="12", helloVerify=False, **NOCID),
    "psk12": dict(ver="12", helloVerify=True, auth="psk", suite="TLS_PSK_WITH_AES_128_GCM_SHA256", **NOCID),
    "psknohint12": dict(ver="12", helloVerify=True, auth="psk", suite="TLS_PSK_WITH_AES_128_GCM_SHA256", noPskHint=True, **NOCID),
    "ecdhepsk12": dict(ver="12", helloVerify=True, auth="ecdhepsk", suite="TLS_ECDHE_PSK_WITH_AES_128_CBC_SHA256", **NOCID),
    "clientauth12": dict(ver="12", helloVerify=True, clientAuth=4, clientCert=True, verify=True, **NOCID),
    "resume12": dict(ver="12", helloVerify=True, resume=True, **NOCID),
    "cid12": dict(ver="12", helloVerify=True, cidC=4, cidS=8),
    # session stores on both sides; the client offers a session id the server does not know (full handshake with cookie exchange)
    "stale12": dict(ver="12", helloVerify=True, staleC=True, **NOCID),
    "stores12": dict(ver="12", helloVerify=True, stores=True, **NOCID),
    "frag12": dict(ver="12", helloVerify=True, mtu=200, **NOCID),
    # MTU 900: the server's Flight 4 travels in exactly two datagrams (Handshake12 Split variant), all other flights in one
    "split12": dict(ver="12", helloVerify=True, mtu=900, **NOCID),
}
V13 = {
    "hrr13": dict(ver="13", helloVerify=True, **NOCID),
    "nohrr13": dict(ver="13", helloVerify=False, **NOCID),
    "frag13": dict(ver="13", helloVerify=True, mtu=300, **NOCID),
    # one classical group only: the ClientHello fits into a single datagram
    "hrr13s": dict(ver="13", helloVerify=True, curvesC=[29], curvesS=[29], **NOCID),
    "nohrr13s": dict(ver="13", helloVerify=False, curvesC=[29], curvesS=[29], **NOCID),
}
# endpoints configured for both versions (the version is negotiated before either flight machine exists)
VDUAL = {
    "dualdual": dict(ver="13", cver="dual", sver="dual", helloVerify=True, curvesC=[29], curvesS=[29], **NOCID),
    "dual-12": dict(ver="12", cver="dual", sver="12", helloVerify=True, **NOCID),
    "dual-13": dict(ver="13", cver="dual", sver="13", helloVerify=True, curvesC=[29], curvesS=[29], **NOCID),
    "12-dual": dict(ver="12", cver="12", sver="dual", helloVerify=True, **NOCID),
}
ALL = dict(V12, **V13, **VDUAL)

# which Handshake12 model variant a scenario follows (same flights, one datagram per flight)
MODEL12 = {"full12": "full", "psk12": "full", "psknohint12": "full", "ecdhepsk12": "full", "clientauth12": "full", "cid12": "full", "stale12": "full", "stores12": "full",
           "nohv12": "nohv", "resume12": "resume", "split12": "split"}
