#!/usr/bin/env python3
"""vcheck <Cxx> [--tier quick|thorough] [--replay path] : decide one property (see DESIGN.md)."""
import argparse
import importlib
import os
import sys
import traceback

sys.path.insert(0, os.path.dirname(os.path.abspath(__file__)))
import vlib  # noqa: E402


def main():
    ap = argparse.ArgumentParser()
    ap.add_argument("prop")
    ap.add_argument("--tier", default=os.environ.get("VERIF_TIER", "quick"), choices=["quick", "thorough"])
    ap.add_argument("--replay", default=None)
    a = ap.parse_args()
    seed = int(os.environ.get("VERIF_SEED", "1") or "1")
    prop = a.prop.upper()
    try:
        mod = importlib.import_module("checks." + prop.lower())
    except ModuleNotFoundError:
        print("no check for", prop, file=sys.stderr)
        return 2
    chk = vlib.Check(prop, a.tier, seed)
    try:
        if a.replay:
            mod.replay(chk, a.replay)
        else:
            mod.run(chk)
        return chk.finish()
    except vlib.Inconclusive as ex:
        if chk.violations:
            # failing real-code cases were already observed: a later part that could not be carried out does not unmake them
            chk.note("a later part of the check was inconclusive: %s" % ex)
            print("NOTE property=%s: a later part of the check was inconclusive (%s); the violations below were observed before it" % (prop, ex),
                  file=sys.stderr)
            return chk.finish()
        print("INCONCLUSIVE property=%s: %s" % (prop, ex), file=sys.stderr)
        return 2
    except Exception:
        traceback.print_exc()
        print("INCONCLUSIVE property=%s: driver error" % prop, file=sys.stderr)
        return 2


if __name__ == "__main__":
    sys.exit(main())
