#!/usr/bin/env python3
"""seedarchive.py <seed-id> <src-dir> <property> <caught-by-check> <needs (text)> : copy a confirmed seeded change into /verif/seeded/<seed-id>/"""
import json, os, shutil, sys
sid, src, prop, caught, needs = sys.argv[1:6]
dst = os.path.join("/verif/seeded", sid)
os.makedirs(dst, exist_ok=True)
for f in os.listdir(src):
    if f.endswith((".diff", ".go", ".txt")):
        shutil.copy(os.path.join(src, f), os.path.join(dst, f if not f.endswith("_test.go") else f + ".txt"))
notes = open(os.path.join(src, "NOTES.txt")).read() if os.path.exists(os.path.join(src, "NOTES.txt")) else ""
meta = {"property": prop, "needs_to_manifest": needs, "notes_excerpt": notes[:1500],
        "confirmed": "demo passes on the pristine worktree and fails with patch.diff applied; library builds (driver/seedeval.sh)",
        "ran": "VERIF_REPO=<scratch worktree with patch> ./vcheck %s --tier quick" % caught,
        "detected_by": caught, "result": "VIOLATION reported"}
json.dump(meta, open(os.path.join(dst, "meta.json"), "w"), indent=1)
print("archived", dst)
