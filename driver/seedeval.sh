#!/bin/bash
# seedeval.sh <worktree> <patch.diff> <demo file> <demo pkg dir> <demo run regex> <check ids...>
# Confirms a seeded change (demo fails with it, passes without) and runs the given checks against it.
set -u
wt=$1; patch=$2; demo=$3; pkg=$4; rx=$5; shift 5
export GOFLAGS=-mod=mod GOPROXY=off
cd "$wt" || exit 9
git checkout -q -- . && git clean -fdq
git checkout -q --detach "$(git -C /repo rev-parse HEAD)"
dst="$pkg/zz_seed_demo_test.go"
cp "$demo" "$dst"
echo "== demo on pristine:"; go test -vet=off -count=1 -run "$rx" "./$pkg" 2>&1 | tail -3
git apply "$patch" || { echo "PATCH DOES NOT APPLY"; exit 8; }
echo "== build:"; go build ./... && echo build ok
echo "== demo with patch:"; go test -vet=off -count=1 -run "$rx" "./$pkg" 2>&1 | tail -4
rm -f "$dst"
for id in "$@"; do
  echo "== check $id against the change:"
  (cd "$(dirname "$0")/.." && VERIF_REPO="$wt" ./vcheck "$id" 2>&1 | grep -E "VIOLATION|KNOWN|INCONCLUSIVE|\] (quick|thorough) tier" | head -4)
done
cd "$wt" && git checkout -q -- . && git clean -fdq
